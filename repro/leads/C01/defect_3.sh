#!/bin/bash
# NOTE: the device used for "run 2" is the hand-computed result of applying the output
# of run 1 of the UNCHANGED code; with a fixed binary only run 1 is meaningful.
# C01 defect 3: diffASAACLs never removes an entry from delMap after using it
# for a move (the IOS twin does: "Line on device can be moved only once").
# If two identical lines are added and one such line is deleted (only remark
# lines can legally be identical on an ASA), the same device line is "moved"
# twice. The second moveACL() emits no delete (line is already marked) but
# still shifts the bookkeeping of line positions, so all following
# "access-list NAME line N" numbers are one too small.
#
# Here the new line "permit ip any4 any4" must come AFTER
# "deny ip 10.9.9.0/24 any4" (target line 6,7) but is inserted BEFORE it:
# the resulting ACL permits the traffic the deny line has to block.
# Result is not equivalent to target and a second compare reports changes.
set -e
export GOFLAGS=-mod=mod GOPROXY=off GOSUMDB=off GOTOOLCHAIN=local
T=$(mktemp -d /tmp/C01a-defect.XXXXXX)
DRC=${DRC:-${BIN:-}}
if [ -z "$DRC" ]; then
  DRC=$T/drc
  (cd ${SRC:-/tmp/wt/C01a/go} && go build -o $DRC ./cmd/drc)
fi
info() { echo '{"model":"ASA","name_list":["router"],"ip_list":["10.1.13.33"]}' > "$1.info"; }
cd $T
cat > dev <<'END'
interface Ethernet0/0
 nameif inside
access-list inside_in remark ---
access-list inside_in extended permit ip host 10.0.0.1 any4
access-list inside_in remark ---
access-list inside_in extended permit ip host 10.0.0.2 any4
access-list inside_in extended deny ip 10.9.9.0 255.255.255.0 any4
access-list inside_in extended deny ip any4 any4
access-group inside_in in interface inside
END
cat > spoc <<'END'
access-list inside_in extended permit ip host 10.0.0.1 any4
access-list inside_in extended permit ip host 10.0.0.2 any4
access-list inside_in remark ---
access-list inside_in extended deny ip 10.9.9.0 255.255.255.0 any4
access-list inside_in remark ---
access-list inside_in extended permit ip any4 any4
access-list inside_in extended deny ip any4 any4
access-group inside_in in interface inside
END
info spoc
echo "### run 1"
$DRC dev spoc
cat <<'END'
### Applying these commands in order to the device ACL gives
###   1 permit host 10.0.0.1   2 permit host 10.0.0.2   3 remark   4 remark
###   5 permit ip any4 any4    6 deny 10.9.9.0/24       7 deny any
### i.e. 'permit ip any4 any4' in front of 'deny ip 10.9.9.0 ...'.
### run 2 on that result, expected: no output
END
cat > dev2 <<'END'
interface Ethernet0/0
 nameif inside
access-list inside_in extended permit ip host 10.0.0.1 any4
access-list inside_in extended permit ip host 10.0.0.2 any4
access-list inside_in remark ---
access-list inside_in remark ---
access-list inside_in extended permit ip any4 any4
access-list inside_in extended deny ip 10.9.9.0 255.255.255.0 any4
access-list inside_in extended deny ip any4 any4
access-group inside_in in interface inside
END
$DRC dev2 spoc
