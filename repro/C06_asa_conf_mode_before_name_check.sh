#!/bin/bash
# C06 known finding: asa.LoadDevice calls setTerminal before checkDeviceName.
# On a terminal narrower than 511 columns setTerminal sends 'configure terminal',
# 'terminal width 511', 'end' - a change of the running configuration - also to
# a device that then turns out to report the wrong host name.
# Pinned by the existing tests asa_simul.t "Login, set terminal, empty config"
# and "SSH login without enable" (expected .login logs fix the command order).
# Exit 0 = defect reproduced, 1 = not reproduced.
export GOFLAGS=-mod=mod GOPROXY=off GOSUMDB=off GOTOOLCHAIN=local
REPO=${GOVC_REPO:-/repo}
T=$(mktemp -d); trap 'rm -rf $T' EXIT
(cd $REPO/go && go build -o $T/drc ./cmd/drc) || exit 2
mkdir -p $T/home/code $T/home/lock $T/log
cat > $T/home/.netspoc-approve <<EOC
basedir = $T/home
systemuser = netspoc
timeout = 1
EOC
echo "* netspoc secret" > $T/home/credentials
echo '{"model":"ASA","name_list":["router"],"ip_list":["10.1.2.3"]}' > $T/home/code/router.info
: > $T/home/code/router
cat > $T/scenario <<'EOC'
netspoc@10.1.2.3's password: <!>
Type help or '?' for a list of available commands.
router>
# enable
Password: <!>
# sh pager
pager lines 24

# sh term

Width = 80, no monitor
terminal interactive
# show hostname
wrong
# sh ver
Cisco Adaptive Security Appliance Software Version 9.4(4)5

EOC
cd $T/home
OUT=$(HOME=$T/home SIMULATE_ROUTER="$REPO/go/testdata/simulate-cisco.pl router $T/scenario" $T/drc -q -L $T/log code/router 2>&1); ST=$?
echo "exit status $ST"; echo "$OUT" | head -3
echo "--- commands sent (from $T/log/router.login):"
grep -n "configure terminal\|terminal width 511\|show hostname" $T/log/router.login
C=$(grep -n "configure terminal" $T/log/router.login | head -1 | cut -d: -f1)
H=$(grep -n "show hostname" $T/log/router.login | head -1 | cut -d: -f1)
if [ -n "$C" ] && { [ -z "$H" ] || [ "$C" -lt "$H" ]; } && echo "$OUT" | grep -q "Wrong device name"; then
  echo "DEFECT: configuration mode entered on a device that reports the wrong name"
  exit 0
fi
exit 1
