#!/usr/bin/env python3
"""Regenerates /verif/MANIFEST.json from the claims table below."""
import json, subprocess

props = [json.loads(l) for l in open('/verif/properties.jsonl')]

CLAIMS = {
 'C12': dict(category='proof', design_ref='DESIGN.md §4 C12',
   text="Deductive proof of what the code contributes to mutual exclusion, under the stated kernel assumption: device.SetLock returns success only with an exclusive non-blocking flock (argument proved to be LOCK_EX|LOCK_NB) on basedir/lock/<basename of the argument>, so 'router' and '/path/code/router' use the same lock file; every effect (device session via ApproveOrCompare, history file, status file, run logs) has the precondition 'lock held', discharged at each call site in drc.Main and doapprove.Main, so a contender that got 'Approve in progress' returns before touching anything; the *os.File carrying the lock is closed by a deferred call when Main returns and nowhere earlier, so it stays referenced (no finalizer can drop the lock during the session).",
   note="Assumed, not provable by contracts on this code: flock(2) semantics across processes (LOCK_EX|LOCK_NB fails iff another open file description holds the lock; the lock dies with the last descriptor, also on kill). Interleavings of two processes are not explored; the claim is the per-process discipline that makes the kernel lock effective.",
   tech='contract-based deductive verification: ghost lock state, preconditions on effect primitives, deferred-close postcondition; kernel lock semantics assumed'),
 'C13': dict(category='proof', design_ref='DESIGN.md §4 C13',
   text="Deductive proof on the real status.SetApprove/SetCompare and missing-approve check/readFile (VCs generated from go/ssa, discharged by z3/cvc5): an inductive invariant linking the two-slot status file to the ghost observation history is preserved by every operation, and under it check prints the device iff the latest conclusive observation does not establish current code (six-file comparison, bz2 aware). Holds for all histories because the invariant is inductive; one known finding (failed approve erases the successful one) is excluded by name.",
   note="Trusted: file system/clock/bzip2/json specs in /verif/specs (Read/write of the status file as ghost map; strictly increasing clock is the property's own assumption); WalkDir enumeration of devices in missing-approve Main and the arguments computed by doapprove.Main are not covered here.",
   tech='contract-based deductive verification: ghost observation history + inductive invariant, WP over go/ssa, SMT'),
 'C06': dict(category='proof', design_ref='DESIGN.md §4 C06',
   text="Deductive proof of the interlock typestate on the real code, once per device type: ghost flags nameChecked/markerMissing/haActive are cleared at entry of device.ApproveOrCompare; (*state).applyCommands (the only path to change, save or commit) requires 'hostname verified (all but NSX), marker not missing, HA member active (PAN-OS)'; the per-device checkDeviceName functions are proved to return normally only if the reported name equals the expected one; cisco/linux checkBanner and panos checkUnmanaged are proved to record a missing marker exactly under the property's condition and LoadDevice/GetChanges to carry it to approve's gate; panos checkHA is proved to return true only for disabled HA or the active member. One genuine defect was repaired (fix: b7526a1), one is a known finding (Linux GetErrUnmanaged).",
   note="Trusted: regexp match abstracted as reMatch(re, s); the reported hostname is defined as the trimmed output of the hostname command (ghost lastOutput set by GetCmdOutput/IssueCmd); library XML decoding is havoc; the diagnostic text and exit status on refusal are covered under C09.",
   tech='contract-based deductive verification: ghost typestate, functional postconditions on name/marker/HA checks, per-device-type specialisation'),
 'C09': dict(category='proof', design_ref='DESIGN.md §4 C09',
   text="Deductive proof with exceptional control flow (panic/defer/recover are modelled): (1) ASA/IOS/Linux cmd returns normally only after every reply of the (possibly joined) command has been read, its echo stripped and the remainder found empty or acceptable; any other outcome ends in errlog.Abort; while a panic propagates only session clean-up commands may be sent (precondition of every send primitive); (2) every ApplyCommands returns nil only if all change commands were accepted and the save/commit was confirmed ([OK] after write memory, job result OK or 'nothing to commit', HTTP 200 and status=success for every request; no change request after a failed one); (3) device.approve returns nil only then, ApproveOrCompare returns 0 only without abort and (for approve) with confirmed changes, and only 0 or 1; (4) do-approve records FAILED iff the exit status is non-zero, DIFF if compare failed, END: FAILED in the history and exits 1. Holds for every device answer and fault position because answers are symbolic.",
   note="Trusted: what counts as acceptable output is the function isValidOutput itself (used as an uninterpreted function of its arguments); goexpect/HTTP library behaviour (Expect returns an error on timeout/EOF, StatusCode is what the device sent); runtime panics other than errlog.Abort are the subject of C20; the commit job polling loop is not proved to terminate.",
   tech='contract-based deductive verification: ghost counters and flags, exceptional postconditions, defer/recover modelling, per-device-type specialisation'),
 'C15': dict(category='proof', design_ref='DESIGN.md §4 C15',
   text="Deductive proof on the real ios code of the guard typestate over the real field reloadActive: sendReloadCmd arms, cancelReload disarms (also on the exceptional path, because it is deferred), every ios.cmd (change command) requires the armed guard, 'configure terminal' of the change block is sent under the guard, writeMem requires the cancelled guard and (C09) all changes accepted, ApplyCommands returns nil only with no reload pending; re-arm: cmd re-arms exactly once if a 'SHUTDOWN in 0:01:00' banner was recognised in the reply of either half of a joined command (genuine defect found and repaired: fix 9df1131); banner handling: stripReloadBanner cuts exactly the leftmost match [l0,l1) out of the output, takes the message from group [l2,l3), reports the one-minute warning iff the message matches, and leaves the output untouched when no guard is active or no banner is present.",
   note="Trusted: regexp semantics (FindStringSubmatchIndex/MatchString as uninterpreted functions with the index layout the code relies on); that the device sends one extra prompt after a banner ('logging synchronous') and expect buffering/timing are environment behaviour outside the code and not covered.",
   tech='contract-based deductive verification: typestate over a real field, ghost re-arm counter, functional postcondition on banner offsets'),
 'C16': dict(category='other', design_ref='DESIGN.md §4 C16',
   text="Scan plus checked justifications plus bounded repetition. Every range-over-map loop of the repository (the only source of run-to-run variation: the scan also proves that planning code uses no clock, random numbers, goroutines or select) must carry a maprange justification in the contract file; for kind 'accumulate' the machinery checks on the current code that the loop has no early exit and that its body (with all callees) emits neither commands nor warnings, the written argument says why the accumulated data is order free (keyed by the iteration key, idempotent set insertion, sorted afterwards); kind 'first-match' is argued by uniqueness. A new or changed map iteration without justification fails a named obligation. Four genuine order dependences were found and repaired (fix: d080655, 7f02745, b43d2d5, 1428671). Bounded: the real planners are run repeatedly in one process on all test-data cases and on tie inputs and compared byte for byte.",
   note="Not a proof: the order-freedom arguments are reviewed text, only their mechanical preconditions are checked; cisco MergeSpoc loops 2 and 3 (recursive mergeCmds under a map iteration) are explicitly not proved and rely on the bounded runs; error message text is not treated as observable.",
   tech='syntactic scan + contract-file justifications with mechanically checked side conditions + bounded repeated execution of the real code'),
 'C18': dict(category='other', design_ref='DESIGN.md §4 C18',
   text="Deductive proof of the merge kernels on the real code: cisco mergeIOSACLs and mergeASAACLs - the [APPEND] block is inserted at a position i with 0 <= i <= len, directly behind the last permit line (or in front if there is none), no permit line follows the block, the block keeps its order, the prepended lines come first in their order and no line is lost (pointwise, quantified postconditions over the result list; two of the ASA clauses need ~80 s and run in the thorough tier only); nsx MergeSpoc - groups and services are the concatenation old ++ other, existing policies stay in place; panos MergeSpoc - no rule is lost and only rules without <APPEND> go on top. Two genuine defects were found and repaired ([APPEND] without permit line; reversed order of Linux raw rules).",
   note="Not covered by contracts: the interleaving postcondition of linux MergeSpoc (only the fix and its replay), the exact order inside PAN-OS top/append groups, NSX rule multisets per policy, recursion through mergeCmds/mergeRefs (name clashes, doubly referenced objects) and the strictness of raw parsing (unknown sub-commands) - so this is not a proof of the whole property. mergeASAACLs assumes a.lookup[prefix] exists (created by MergeSpoc's first loop).",
   tech='contract-based deductive verification: quantified pointwise postconditions over slices, loop invariants, site assertions with ghost captures'),
 'C20': dict(category='other', design_ref='DESIGN.md §4 C20, §9',
   text="Two-part check. Deductive part: a zero-annotation safety sweep turns every index, slice, nil-dereference, map-write, type-assertion, division and explicit-panic site of every repository function (about 3100 sites) into an obligation over symbolic inputs; the ~2400 sites discharged on the unchanged tree (committed baseline) are proved panic-free for all inputs and must stay discharged - a change that removes a length check fails the named site obligation, usually with a model; the ~700 undecided sites are not claimed. Bounded part: the property's own finite family (word-prefix truncations, token deletions/duplications/swaps, double blanks, indentation changes, line deletion/duplication, JSON/XML structural mutations, empty/garbage files, info files) is executed on the real ParseConfig/MergeSpoc/GetChanges of all five device types; a runtime panic is a confirmed failing input and is reported without the no-failing-input-found suffix. 10 genuine defects found this way were repaired (fix: commits), two test-pinned deliberate panics are known findings.",
   note="Not a proof of the whole property: undecided sites, termination ('never hang'), status-file and command-line handling are not covered by the deductive part; the bounded part mutates only the first 2 (quick) / 25 (thorough) lines of each test-data text. Assumptions: elements of slices of pointers to repository structs are non-nil (checked at every store in repository code, trusted for encoding/xml; encoding/json nulls are rejected by the repaired NSX parser); library calls do not panic.",
   tech='zero-annotation safety VCs over go/ssa with committed baseline + bounded execution of the real code on the enumerated mutation family'),
 'C11': dict(category='proof', design_ref='DESIGN.md §4 C11',
   text="Deductive proof over all device answers: a ghost flag isCompareRun is assigned from the argument at entry of device.ApproveOrCompare; every send primitive (console.Conn.Send/IssueCmd/SendCmd/GetCmdOutput, panos httpPrefixGetLog, nsx sendRequest, http PostForm, linux putScp) carries the precondition 'not a compare run, or the command is in the fixed read-only set', which is discharged at every call site of every function on the load, compare and apply paths (approve/compare verified once per device type); scans prove the raw primitives are used only inside those wrappers; site assertions prove that drc -C and the do-approve verb select the path.",
   note="Trusted: the read-only command list in pkg/console/zz_contracts_verif.go is the specification; the PAN-OS keygen URL built by net/url is not inspected (scan only shows httpGet is reached from getAPIKey and httpPrefixGetLog); library calls are assumed not to talk to the device.",
   tech='contract-based deductive verification: ghost typestate preconditions on send primitives, per-device-type specialisation, call-site obligations, syntactic scans'),
}

def check(pid, c):
    return dict(property_id=pid,
        quick_cmd=f"/verif/bin/govc check --property {pid} --tier quick",
        thorough_cmd=f"/verif/bin/govc check --property {pid} --tier thorough",
        evidence_file=f"/verif/evidence/{pid}.json",
        replay_cmd_template="/verif/bin/govc replay {path}", engine="govc",
        level_claimed=dict(category=c['category'], text=c['text'], design_ref=c['design_ref']),
        level_note=c['note'], technique=c['tech'])

 # inserted below
NA = {
 'C19': "bash script plus git and the Netspoc compiler: no contract language or deductive verifier for shell is available here, and the quantifier is over kill points and concurrent invocations of processes (outside contract reasoning)",
}
na = []
for p in props:
    if p['id'] in CLAIMS: continue
    na.append(dict(property_id=p['id'], reason=NA.get(p['id'], "not decided by the machinery in this commit (work in progress, see DESIGN.md §4)")))

commits = subprocess.run(['git','-C','/repo','log','--format=%H %s'],capture_output=True,text=True).stdout.splitlines()
hook_commits = [c.split()[0] for c in commits if c.split(' ',1)[1].startswith('verif:')]

m = dict(version=1,
  setup_cmd="cd /verif/engine && GOFLAGS=-mod=mod GOPROXY=off GOSUMDB=off GOTOOLCHAIN=local go build -o /verif/bin/govc .",
  hooks=dict(guard="verif",
     enable="contract files go/pkg/*/zz_contracts_verif.go and go/cmd/*/zz_contracts_verif.go carry //go:build verif and contain only comments (//vc: directives); govc loads the packages with -tags=verif; there is no executable hook code",
     baseline_off_cmd="cd /repo/go && GOFLAGS=-mod=mod GOPROXY=off GOSUMDB=off GOTOOLCHAIN=local go test -mod=mod -json -vet=off -count=1 -timeout 25m ./...",
     source_commits=hook_commits, add_only=True),
  engines=[dict(name="govc", path="/verif/engine", serves_properties=sorted(CLAIMS),
     kind_free_text="self-written VC generator for Go: weakest preconditions over go/ssa of the working tree, contracts as //vc: comments in build-tag guarded files, obligations discharged by z3 5.1.0 / z3 4.8.12 / cvc5 1.0.3")],
  checks=[check(p, c) for p, c in sorted(CLAIMS.items())],
  not_applicable=na, notes="see DESIGN.md")
json.dump(m, open('/verif/MANIFEST.json', 'w'), indent=1)
print('claimed:', sorted(CLAIMS), 'hooks:', len(hook_commits))
