#!/bin/bash
# C18/C20: raw file with [APPEND] lines for an ACL that has no permit line:
# mergeASAACLs / mergeIOSACLs searched the last permit line, ended with i == -1
# and sliced acl[:-1] (runtime panic, exit status 2).
# Exit 0 = defect reproduced, 1 = not reproduced.
export GOFLAGS=-mod=mod GOPROXY=off GOSUMDB=off GOTOOLCHAIN=local
REPO=${GOVC_REPO:-/repo}
T=$(mktemp -d); trap 'rm -rf $T' EXIT
(cd $REPO/go && go build -o $T/drc ./cmd/drc) || exit 2
mkdir -p $T/code; cd $T
echo '{"model":"ASA","name_list":["router"],"ip_list":["10.1.13.33"]}' > code/router.info
: > device
cat > code/router <<EOC
access-list inside_in extended deny ip any4 any4
access-group inside_in in interface inside
EOC
cat > code/router.raw <<EOC
access-group inside_in in interface inside
[APPEND]
access-list inside_in extended deny tcp any4 any4 eq 22
EOC
OUT=$(./drc -q device code/router 2>&1); ST=$?
echo "exit status $ST"; echo "$OUT" | head -6
if [ $ST -eq 2 ] && echo "$OUT" | grep -q "slice bounds out of range"; then echo "REPRODUCED"; exit 0; fi
exit 1
