package main

// Evaluation of contract expressions to SMT terms.

import (
	"fmt"
	"strconv"
	"go/token"
	"go/types"
	"strings"

	"golang.org/x/tools/go/ssa"
)

type SVal struct {
	T   Term
	Typ types.Type // Go type if known
	V   *Val       // original symbolic value (for lvalues/closures)
}

type SpecEnv struct {
	fr    *frame
	ft    *FT
	vars  map[string]SVal
	cur   *State
	old   *State
	pkg   *types.Package
	at    *ssa.BasicBlock // program point for local name resolution
	inOld bool
	inTrigger bool // evaluating a quantifier pattern: no boolean structure
	tolerant bool
	atLoopHeader bool // the program point is a loop header: its phis are the loop variables
	paramsAtEntry bool
	loadEntry []bool // per load: read from an entry heap ("@0" version)
	loads []Term // heap values of reference/slice sort read while evaluating (outside quantifiers)
	toleranceUsed bool
	anyBlock bool
	fn    *ssa.Function // function whose names are in scope (may be nil)
	qn    int
}

func (env *SpecEnv) state() *State {
	if env.inOld && env.old != nil {
		return env.old
	}
	return env.cur
}

func (env *SpecEnv) evalBool(e Expr) (string, error) {
	v, err := env.eval(e)
	if err != nil {
		return "", err
	}
	if v.T.Sort != SBool {
		return "", fmt.Errorf("expression %s is not boolean (%s)", exprString(e), v.T.Sort)
	}
	return v.T.S, nil
}

// evalBool in the context of the frame's own function at a program point
func (fr *frame) evalBool(e Expr, cur, old *State, at *ssa.BasicBlock) (string, error) {
	env := fr.ownEnv(cur, old, at)
	env.atLoopHeader = at != nil
	return env.evalBool(e)
}

func (fr *frame) ownEnv(cur, old *State, at *ssa.BasicBlock) *SpecEnv {
	env := &SpecEnv{fr: fr, ft: fr.ft, vars: map[string]SVal{}, cur: cur, old: old, at: at, fn: fr.fn}
	if fr.fn.Pkg != nil {
		env.pkg = fr.fn.Pkg.Pkg
	} else if fr.fn.Parent() != nil && fr.fn.Parent().Pkg != nil {
		env.pkg = fr.fn.Parent().Pkg.Pkg
	}
	for p := fr.fn; env.pkg == nil && p != nil; p = p.Parent() {
		if p.Pkg != nil {
			env.pkg = p.Pkg.Pkg
		}
	}
	for k, v := range fr.lets {
		env.vars[k] = v
	}
	return env
}

// calleeEnv builds the environment for a callee's contract at a call site.
func (e *Engine) calleeEnv(fr *frame, fc *FuncContract, callee *ssa.Function, c *ssa.CallCommon, args, bindings []Val) *SpecEnv {
	env := &SpecEnv{fr: fr, ft: fr.ft, vars: map[string]SVal{}}
	sig := c.Signature()
	if callee != nil {
		for p := callee; env.pkg == nil && p != nil; p = p.Parent() {
			if p.Pkg != nil {
				env.pkg = p.Pkg.Pkg
			}
		}
		if callee.Blocks != nil {
			for i, p := range callee.Params {
				if i < len(args) {
					a := args[i]
					env.vars[p.Name()] = SVal{T: fr.ft.termOf(a, p.Type()), Typ: p.Type(), V: &a}
				}
			}
		} else {
			// external: names from the signature
			k := 0
			if r := sig.Recv(); r != nil && k < len(args) {
				a := args[k]
				name := r.Name()
				if name == "" || name == "_" {
					name = "this"
				}
				env.vars[name] = SVal{T: fr.ft.termOf(a, r.Type()), Typ: r.Type(), V: &a}
				env.vars["this"] = env.vars[name]
				k++
			}
			for i := 0; i < sig.Params().Len() && k < len(args); i++ {
				p := sig.Params().At(i)
				a := args[k]
				name := p.Name()
				sv := SVal{T: fr.ft.termOf(a, p.Type()), Typ: p.Type(), V: &a}
				if name != "" && name != "_" {
					env.vars[name] = sv
				}
				env.vars[fmt.Sprintf("arg%d", i)] = sv
				k++
			}
		}
		for i, fv := range callee.FreeVars {
			if i < len(bindings) {
				b := bindings[i]
				env.vars["&"+fv.Name()] = SVal{T: fr.ft.termOf(b, fv.Type()), Typ: fv.Type(), V: &b}
			}
		}
		if env.pkg == nil && sig.Recv() != nil {
			if n, ok := derefNamed(sig.Recv().Type()); ok {
				env.pkg = n.Obj().Pkg()
			}
		}
	} else {
		// interface method: receiver first
		if c.IsInvoke() {
			env.vars["this"] = SVal{T: fr.ft.termOf(args[0], c.Value.Type()), Typ: c.Value.Type()}
			if n, ok := c.Value.Type().(*types.Named); ok {
				env.pkg = n.Obj().Pkg()
			}
			for i := 0; i < sig.Params().Len(); i++ {
				p := sig.Params().At(i)
				name := p.Name()
				if name == "" || name == "_" {
					name = fmt.Sprintf("arg%d", i)
				}
				if i+1 < len(args) {
					env.vars[name] = SVal{T: fr.ft.termOf(args[i+1], p.Type()), Typ: p.Type()}
				}
				env.vars[fmt.Sprintf("arg%d", i)] = env.vars[name]
			}
		}
	}
	if callee != nil {
		// positional names always available
		off := 0
		if sig.Recv() != nil {
			off = 1
		}
		for i := range callee.Params {
			if i >= off && i < len(args) {
				p := callee.Params[i]
				env.vars[fmt.Sprintf("arg%d", i-off)] = SVal{T: fr.ft.termOf(args[i], p.Type()), Typ: p.Type()}
			}
		}
	}
	if env.pkg == nil && fc.Pkg != "" {
		env.pkg = e.typesPkg(fc.Pkg)
	}
	return env
}

func derefNamed(t types.Type) (*types.Named, bool) {
	if p, ok := t.(*types.Pointer); ok {
		t = p.Elem()
	}
	n, ok := t.(*types.Named)
	return n, ok
}

func (env *SpecEnv) bindResults(sig *types.Signature, callee *ssa.Function, res Val) {
	rs := sig.Results()
	var vals []Val
	if rs.Len() == 1 {
		vals = []Val{res}
	} else {
		vals = res.Tuple
	}
	for i := 0; i < rs.Len() && i < len(vals); i++ {
		r := rs.At(i)
		sv := SVal{T: env.ft.termOf(vals[i], r.Type()), Typ: r.Type()}
		env.vars[fmt.Sprintf("result%d", i)] = sv
		if i == 0 {
			env.vars["result"] = sv
		}
		if r.Name() != "" && r.Name() != "_" {
			env.vars[r.Name()] = sv
		}
		if types.TypeString(r.Type(), nil) == "error" {
			if _, ok := env.vars["err"]; !ok {
				env.vars["err"] = sv
			}
		}
	}
}

func (env *SpecEnv) resolveType(s string) (types.Type, error) {
	s = strings.TrimSpace(s)
	switch s {
	case "int":
		return types.Typ[types.Int], nil
	case "int64":
		return types.Typ[types.Int64], nil
	case "bool":
		return types.Typ[types.Bool], nil
	case "string":
		return types.Typ[types.String], nil
	case "ref":
		return types.Typ[types.UnsafePointer], nil
	}
	if t, ok := env.ft.e.qualifiedType(s); ok {
		return t, nil
	}
	if t := env.localNamedType(s); t != nil {
		return t, nil
	}
	if env.pkg == nil {
		return nil, fmt.Errorf("cannot resolve type %q: no package", s)
	}
	tv, err := types.Eval(env.ft.e.fset, env.pkg, token.NoPos, "(*struct{x "+s+"})(nil)")
	if err != nil {
		return nil, fmt.Errorf("cannot resolve type %q: %v", s, err)
	}
	st := tv.Type.(*types.Pointer).Elem().(*types.Struct)
	return st.Field(0).Type(), nil
}

func (env *SpecEnv) eval(e Expr) (SVal, error) {
	ft := env.ft
	u := ft.e.u
	switch x := e.(type) {
	case EInt:
		return SVal{T: Term{intLit(x.V), SInt}, Typ: types.Typ[types.Int]}, nil
	case EStr:
		return SVal{T: u.strLit(x.V), Typ: types.Typ[types.String]}, nil
	case EBool:
		return SVal{T: Term{fmt.Sprint(x.V), SBool}, Typ: types.Typ[types.Bool]}, nil
	case ENil:
		return SVal{T: Term{"null", SRef}}, nil
	case EOld:
		save := env.inOld
		env.inOld = true
		v, err := env.eval(x.X)
		env.inOld = save
		return v, err
	case EIdent:
		return env.ident(x.Name)
	case EField:
		// package qualified ghost? (pkg.name) not supported; field access
		base, err := env.eval(x.X)
		if err != nil {
			return SVal{}, err
		}
		return env.field(base, x.Name)
	case EIndex:
		base, err := env.eval(x.X)
		if err != nil {
			return SVal{}, err
		}
		idx, err := env.eval(x.I)
		if err != nil {
			return SVal{}, err
		}
		return env.index(base, idx)
	case ESlice:
		base, err := env.eval(x.X)
		if err != nil {
			return SVal{}, err
		}
		lo := "0"
		if x.Lo != nil {
			v, err := env.eval(x.Lo)
			if err != nil {
				return SVal{}, err
			}
			lo = v.T.S
		}
		switch base.T.Sort {
		case SStr:
			hi := sx("strlen", base.T.S)
			if x.Hi != nil {
				v, err := env.eval(x.Hi)
				if err != nil {
					return SVal{}, err
				}
				hi = v.T.S
			}
			return SVal{T: ft.substr(base.T, lo, hi), Typ: base.Typ}, nil
		case SSlice:
			hi := sx("slen", base.T.S)
			if x.Hi != nil {
				v, err := env.eval(x.Hi)
				if err != nil {
					return SVal{}, err
				}
				hi = v.T.S
			}
			r := sx("mk-slice", sx("sbase", base.T.S), sx("+", sx("soff", base.T.S), lo), sx("-", hi, lo), sx("-", sx("scap", base.T.S), lo))
			return SVal{T: Term{r, SSlice}, Typ: base.Typ}, nil
		}
		return SVal{}, fmt.Errorf("cannot slice %s", exprString(x.X))
	case EUnary:
		v, err := env.eval(x.X)
		if err != nil {
			return SVal{}, err
		}
		switch x.Op {
		case "!":
			if v.T.Sort != SBool {
				return SVal{}, fmt.Errorf("! applied to non-bool %s", exprString(x.X))
			}
			return SVal{T: Term{not(v.T.S), SBool}, Typ: v.Typ}, nil
		case "-":
			return SVal{T: Term{sx("-", v.T.S), SInt}, Typ: v.Typ}, nil
		}
	case EBinary:
		return env.binary(x)
	case EQuant:
		return env.quant(x)
	case ECall:
		return env.call(x)
	}
	return SVal{}, fmt.Errorf("cannot evaluate %s", exprString(e))
}

func (e *Engine) ghostHeap(name string) string {
	return "G$ghost$" + name
}

func (env *SpecEnv) ident(name string) (SVal, error) {
	ft := env.ft
	e := ft.e
	if v, ok := env.vars[name]; ok {
		return v, nil
	}
	// captured variable of a closure: cell
	if v, ok := env.vars["&"+name]; ok {
		return env.deref(v)
	}
	if g, ok := e.cs.Ghosts[name]; ok {
		h := e.ghostHeap(name)
		if _, ok := e.u.heaps[h]; !ok {
			return SVal{}, fmt.Errorf("ghost %s has unknown type %s", name, g.Type)
		}
		return SVal{T: Term{ft.heapTerm(env.state(), h), e.u.heaps[h]}, Typ: e.ghostTypes[name]}, nil
	}
	// local names of the function under verification
	if env.fn != nil && env.fr != nil {
		if v, ok := env.localName(name); ok {
			return v, nil
		}
	}
	// package-level variable
	if env.pkg != nil {
		if obj, ok := env.pkg.Scope().Lookup(name).(*types.Var); ok {
			h, s := e.u.globalHeap(env.pkg.Path(), name, obj.Type())
			return SVal{T: Term{ft.heapTerm(env.state(), h), s}, Typ: obj.Type()}, nil
		}
		if obj, ok := env.pkg.Scope().Lookup(name).(*types.Const); ok {
			c := ssa.NewConst(obj.Val(), obj.Type())
			return SVal{T: ft.constVal(c).T, Typ: obj.Type()}, nil
		}
	}
	return SVal{}, fmt.Errorf("unknown name %q", name)
}

func (env *SpecEnv) deref(v SVal) (SVal, error) {
	ft := env.ft
	pt, ok := v.Typ.Underlying().(*types.Pointer)
	if !ok {
		return SVal{}, fmt.Errorf("deref of non-pointer")
	}
	var lv *LValue
	if v.V != nil && v.V.LV != nil {
		lv = v.V.LV
	} else if isStruct(pt.Elem()) {
		lv = &LValue{Obj: v.T.S, Typ: pt.Elem(), Sort: ft.e.u.sortOf(pt.Elem())}
	} else {
		h, s := ft.e.u.cellHeap(pt.Elem())
		lv = &LValue{Heap: h, Keys: []string{v.T.S}, Typ: pt.Elem(), Sort: s}
	}
	t := ft.load(env.state(), lv)
	return SVal{T: t, Typ: pt.Elem()}, nil
}

// localName resolves a source-level variable name inside the function.
func (env *SpecEnv) localName(name string) (SVal, bool) {
	fr := env.fr
	fn := env.fn
	ft := env.ft
	// in postconditions a parameter name denotes the value at entry (unless a
	// local of the same name shadows it)
	if env.paramsAtEntry {
		for _, p := range fn.Params {
			if p.Name() != name {
				continue
			}
			shadowed := false
			for _, b := range fn.Blocks {
				for _, ins := range b.Instrs {
					if d, ok := ins.(*ssa.DebugRef); ok {
						if o := d.Object(); o != nil && o.Name() == name && o.Pos() != p.Pos() {
							shadowed = true
						}
					}
				}
			}
			if !shadowed {
				if v, ok := fr.vals[p]; ok {
					return SVal{T: ft.termOf(v, p.Type()), Typ: p.Type(), V: &v}, true
				}
			}
		}
	}
	// phis at the program point first (loop variables), then the most recent
	// binding of the identifier according to the debug information (handles
	// shadowing), then parameters / captured variables / named allocs.
	if name == "rangevisited" && env.at != nil {
		// keys a `for k, v := range m` loop has produced so far (ghost set)
		for _, ins := range env.at.Instrs {
			if n, ok := ins.(*ssa.Next); ok {
				if rng, ok := n.Iter.(*ssa.Range); ok {
					if mt, ok := rng.X.Type().Underlying().(*types.Map); ok {
						h, ks := fr.visitedHeap(rng, mt)
						return SVal{T: Term{ft.heapTerm(env.state(), h), arraySort(ks, SBool)}}, true
					}
				}
			}
		}
	}
	if name == "rangeslice" && env.at != nil {
		// the slice a `for ... range X` loop iterates over (X need not have a name):
		// the header compares rangeindex+1 with len(X)
		for _, ins := range env.at.Instrs {
			bo, ok := ins.(*ssa.BinOp)
			if !ok || bo.Op != token.LSS {
				continue
			}
			if c, ok := bo.Y.(*ssa.Call); ok {
				if b, isB := c.Call.Value.(*ssa.Builtin); isB && b.Name() == "len" && len(c.Call.Args) == 1 {
					x := c.Call.Args[0]
					if v, ok := fr.vals[x]; ok {
						return SVal{T: ft.termOf(v, x.Type()), Typ: x.Type(), V: &v}, true
					}
				}
			}
		}
	}
	if env.at != nil && env.atLoopHeader {
		for _, ins := range env.at.Instrs {
			phi, ok := ins.(*ssa.Phi)
			if !ok {
				break
			}
			if phi.Comment == name {
				if v, ok := fr.vals[phi]; ok {
					return SVal{T: ft.termOf(v, phi.Type()), Typ: phi.Type(), V: &v}, true
				}
			}
		}
	}
	{
		var best ssa.Value
		var bestBlock *ssa.BasicBlock
		var bestAddr bool
		var bestObj types.Object
		for _, b := range fn.Blocks {
			if env.at != nil && !(b == env.at || b.Dominates(env.at)) {
				continue
			}
			if env.at == nil && len(fn.Blocks) > 1 && b != fn.Blocks[0] && !env.anyBlock {
				// without a program point only the entry block is certainly executed
				continue
			}
			for _, ins := range b.Instrs {
				var val ssa.Value
				isAddr := false
				var obj types.Object
				switch d := ins.(type) {
				case *ssa.Phi:
					if d.Comment != name {
						continue
					}
					val = d
				case *ssa.DebugRef:
					if id := d.Object(); id == nil || id.Name() != name {
						continue
					}
					val, isAddr, obj = d.X, d.IsAddr, d.Object()
				default:
					continue
				}
				_, have := fr.vals[val]
				_, isConst := val.(*ssa.Const)
				if !have && !isConst {
					continue
				}
				if bestBlock == nil || bestBlock == b || bestBlock.Dominates(b) {
					best, bestBlock, bestAddr, bestObj = val, b, isAddr, obj
				}
			}
		}
		// in postconditions a parameter name denotes the value at entry, even if
		// the body reassigns the parameter variable
		if best != nil && env.paramsAtEntry {
			for _, p := range fn.Params {
				if p.Name() != name {
					continue
				}
				if bestObj == nil || p.Pos() == bestObj.Pos() {
					if v, ok := fr.vals[p]; ok {
						return SVal{T: ft.termOf(v, p.Type()), Typ: p.Type(), V: &v}, true
					}
				}
			}
		}
		// a variable that lives in a heap cell (captured or escaping local): its
		// value at any time is the content of the cell in that state
		if best != nil && !bestAddr && bestObj != nil {
			var cell ssa.Value
			for _, fv := range fn.FreeVars {
				if fv.Pos() == bestObj.Pos() {
					cell = fv
				}
			}
			if cell == nil {
				for _, b := range fn.Blocks {
					for _, ins := range b.Instrs {
						if a, ok := ins.(*ssa.Alloc); ok && a.Heap && a.Pos() == bestObj.Pos() {
							if _, have := fr.vals[a]; have {
								cell = a
							}
						}
					}
				}
			}
			if cell != nil {
				if v, ok := fr.vals[cell]; ok {
					sv := SVal{T: ft.termOf(v, cell.Type()), Typ: cell.Type(), V: &v}
					if d, err := env.deref(sv); err == nil {
						return d, true
					}
				}
			}
		}
		if best != nil {
			v := fr.get(best)
			sv := SVal{T: ft.termOf(v, best.Type()), Typ: best.Type(), V: &v}
			if bestAddr {
				if d, err := env.deref(sv); err == nil {
					return d, true
				}
			} else {
				return sv, true
			}
		}
	}
	for _, p := range fn.Params {
		if p.Name() == name {
			if v, ok := fr.vals[p]; ok {
				return SVal{T: ft.termOf(v, p.Type()), Typ: p.Type(), V: &v}, true
			}
		}
	}
	for _, fv := range fn.FreeVars {
		if fv.Name() == name {
			if v, ok := fr.vals[fv]; ok {
				sv := SVal{T: ft.termOf(v, fv.Type()), Typ: fv.Type(), V: &v}
				d, err := env.deref(sv)
				if err == nil {
					return d, true
				}
			}
		}
	}
	// named results / allocs by comment
	var bestAlloc *ssa.Alloc
	for _, b := range fn.Blocks {
		for _, ins := range b.Instrs {
			if a, ok := ins.(*ssa.Alloc); ok && a.Comment == name {
				if _, ok := fr.vals[a]; ok {
					bestAlloc = a
				}
			}
		}
	}
	// phis at the program point (loop header) and enclosing headers
	if env.at != nil {
		for b := env.at; b != nil; b = b.Idom() {
			for _, ins := range b.Instrs {
				phi, ok := ins.(*ssa.Phi)
				if !ok {
					break
				}
				if phi.Comment == name {
					if v, ok := fr.vals[phi]; ok {
						return SVal{T: ft.termOf(v, phi.Type()), Typ: phi.Type(), V: &v}, true
					}
				}
			}
		}
	}
	if bestAlloc != nil {
		v := fr.vals[bestAlloc]
		sv := SVal{T: ft.termOf(v, bestAlloc.Type()), Typ: bestAlloc.Type(), V: &v}
		d, err := env.deref(sv)
		if err == nil {
			return d, true
		}
	}
	// (debug refs handled first, see above)
	// SSA register name escape hatch: %t12
	if strings.HasPrefix(name, "%") {
		for _, b := range fn.Blocks {
			for _, ins := range b.Instrs {
				if v, ok := ins.(ssa.Value); ok && v.Name() == name[1:] {
					if x, ok := fr.vals[v]; ok {
						return SVal{T: ft.termOf(x, v.Type()), Typ: v.Type(), V: &x}, true
					}
				}
			}
		}
	}
	return SVal{}, false
}

func (env *SpecEnv) field(base SVal, name string) (SVal, error) {
	ft := env.ft
	u := ft.e.u
	if base.Typ == nil {
		return SVal{}, fmt.Errorf("field %s of untyped value", name)
	}
	t := base.Typ
	isPtr := false
	if p, ok := t.Underlying().(*types.Pointer); ok {
		t = p.Elem()
		isPtr = true
	}
	st, ok := t.Underlying().(*types.Struct)
	if !ok {
		return SVal{}, fmt.Errorf("field %s of non-struct %s", name, t)
	}
	// find field (incl. promoted through embedded structs)
	idx := -1
	for i := 0; i < st.NumFields(); i++ {
		if st.Field(i).Name() == name {
			idx = i
		}
	}
	if idx < 0 {
		for i := 0; i < st.NumFields(); i++ {
			f := st.Field(i)
			if f.Embedded() {
				inner, err := env.field(base, f.Name())
				if err != nil {
					continue
				}
				if r, err := env.field(inner, name); err == nil {
					return r, nil
				}
			}
		}
		return SVal{}, fmt.Errorf("no field %s in %s", name, t)
	}
	f := st.Field(idx)
	si := u.structOf(t)
	if isPtr {
		if isStruct(f.Type()) {
			sub := sx(u.subFun(t, idx), base.T.S)
			// value of struct type: represent as pointer-to-subobject internally
			return SVal{T: Term{sub, SRef}, Typ: types.NewPointer(f.Type())}, nil
		}
		h, s := u.fieldHeap(t, idx)
		ht := ft.heapTerm(env.state(), h)
		r := Term{sel(ht, base.T.S), s}
		env.noteLoadFrom(r, ht)
		return SVal{T: r, Typ: f.Type()}, nil
	}
	return SVal{T: Term{sx("f$"+si.name+"$"+si.fields[idx].name, base.T.S), si.fields[idx].sort}, Typ: f.Type()}, nil
}

func (env *SpecEnv) index(base, idx SVal) (SVal, error) {
	ft := env.ft
	u := ft.e.u
	// ghost array
	if strings.HasPrefix(string(base.T.Sort), "(Array ") {
		_, vs := splitArraySort(base.T.Sort)
		var et types.Type
		if base.Typ != nil {
			if m, ok := base.Typ.Underlying().(*types.Map); ok {
				et = m.Elem()
			}
		}
		return SVal{T: Term{sel(base.T.S, idx.T.S), vs}, Typ: et}, nil
	}
	if base.Typ != nil {
		switch bt := base.Typ.Underlying().(type) {
		case *types.Slice:
			h, es := u.elemHeap(bt.Elem())
			ht := ft.heapTerm(env.state(), h)
			t := sel(sel(ht, sx("sbase", base.T.S)), sx("ix", base.T.S, idx.T.S))
			env.noteLoadFrom(Term{t, es}, ht)
			return SVal{T: Term{t, es}, Typ: bt.Elem()}, nil
		case *types.Map:
			_, val, _, vs := u.mapHeaps(bt)
			t := sel(sel(ft.heapTerm(env.state(), val), base.T.S), idx.T.S)
			return SVal{T: Term{t, vs}, Typ: bt.Elem()}, nil
		case *types.Basic:
			u.declFun("strbyte", "(declare-fun strbyte (Str Int) Int)")
			return SVal{T: Term{sx("strbyte", base.T.S, idx.T.S), SInt}, Typ: types.Typ[types.Byte]}, nil
		}
	}
	if base.T.Sort == SStr {
		u.declFun("strbyte", "(declare-fun strbyte (Str Int) Int)")
		return SVal{T: Term{sx("strbyte", base.T.S, idx.T.S), SInt}, Typ: types.Typ[types.Byte]}, nil
	}
	return SVal{}, fmt.Errorf("cannot index value of sort %s", base.T.Sort)
}

func splitArraySort(s Sort) (Sort, Sort) {
	str := strings.TrimSuffix(strings.TrimPrefix(string(s), "(Array "), ")")
	// first sort token (may be parenthesised)
	d := 0
	for i, c := range str {
		switch c {
		case '(':
			d++
		case ')':
			d--
		case ' ':
			if d == 0 {
				return Sort(str[:i]), Sort(str[i+1:])
			}
		}
	}
	return Sort(str), ""
}

func (env *SpecEnv) binary(x EBinary) (SVal, error) {
	ft := env.ft
	undefinedErr := func(err error) bool {
		return env.tolerant && (strings.Contains(err.Error(), "unknown name") || strings.Contains(err.Error(), "no field"))
	}
	if x.Op == "||" || x.Op == "&&" {
		// locals that do not exist at this exit make an atom undefined = false
		a, errA := env.eval(x.X)
		b, errB := env.eval(x.Y)
		if errA != nil && !undefinedErr(errA) {
			return SVal{}, errA
		}
		if errB != nil && !undefinedErr(errB) {
			return SVal{}, errB
		}
		if errA != nil || errB != nil {
			env.toleranceUsed = true
			if x.Op == "&&" {
				return SVal{T: Term{"false", SBool}}, nil
			}
			if errA != nil && errB != nil {
				return SVal{T: Term{"false", SBool}}, nil
			}
			if errA != nil {
				return b, nil
			}
			return a, nil
		}
		if a.T.Sort != SBool || b.T.Sort != SBool {
			return SVal{}, fmt.Errorf("operands of %s must be boolean in %s", x.Op, exprString(x))
		}
		if x.Op == "&&" {
			return SVal{T: Term{and(a.T.S, b.T.S), SBool}}, nil
		}
		return SVal{T: Term{or(a.T.S, b.T.S), SBool}}, nil
	}
	a, err := env.eval(x.X)
	if err != nil {
		if x.Op == "==>" && env.tolerant && (strings.Contains(err.Error(), "unknown name") || strings.Contains(err.Error(), "no field")) {
			// the antecedent talks about locals that do not exist at this exit: clause does not apply
			env.toleranceUsed = true
			return SVal{T: Term{"true", SBool}}, nil
		}
		return SVal{}, err
	}
	if x.Op == "in" {
		m, err := env.eval(x.Y)
		if err != nil {
			return SVal{}, err
		}
		if m.Typ != nil && m.T.Sort == SRef {
			if mt, ok := m.Typ.Underlying().(*types.Map); ok {
				dom, _, _, _ := ft.e.u.mapHeaps(mt)
				if env.inTrigger {
					return SVal{T: Term{sel(sel(ft.heapTerm(env.state(), dom), m.T.S), a.T.S), SBool}}, nil
				}
				return SVal{T: Term{and(not(eq(m.T.S, "null")), sel(sel(ft.heapTerm(env.state(), dom), m.T.S), a.T.S)), SBool}}, nil
			}
		}
		if strings.HasPrefix(string(m.T.Sort), "(Array ") {
			return SVal{T: Term{sel(m.T.S, a.T.S), SBool}}, nil
		}
		return SVal{}, fmt.Errorf("'in' needs a map or set")
	}
	b, err := env.eval(x.Y)
	if err != nil {
		if x.Op == "==>" && env.tolerant && a.T.Sort == SBool && (strings.Contains(err.Error(), "unknown name") || strings.Contains(err.Error(), "no field")) {
			// names that do not exist at this exit: the antecedent must be false here
			env.toleranceUsed = true
			return SVal{T: Term{not(a.T.S), SBool}}, nil
		}
		return SVal{}, err
	}
	boolOp := func(f func(a, b string) string) (SVal, error) {
		if a.T.Sort != SBool || b.T.Sort != SBool {
			return SVal{}, fmt.Errorf("operands of %s must be boolean in %s", x.Op, exprString(x))
		}
		return SVal{T: Term{f(a.T.S, b.T.S), SBool}}, nil
	}
	switch x.Op {
	case "==>":
		return boolOp(implies)
	case "<==>":
		return boolOp(func(a, b string) string { return sx("=", a, b) })
	case "&&":
		return boolOp(func(a, b string) string { return and(a, b) })
	case "||":
		return boolOp(func(a, b string) string { return or(a, b) })
	case "==", "!=":
		var c string
		if a.T.Sort == SSlice && (b.T.S == "null") {
			c = eq(sx("sbase", a.T.S), "null")
		} else if b.T.Sort == SSlice && a.T.S == "null" {
			c = eq(sx("sbase", b.T.S), "null")
		} else {
			if a.T.Sort != b.T.Sort {
				return SVal{}, fmt.Errorf("sort mismatch in %s: %s vs %s", exprString(x), a.T.Sort, b.T.Sort)
			}
			c = eq(a.T.S, b.T.S)
		}
		if x.Op == "!=" {
			c = not(c)
		}
		return SVal{T: Term{c, SBool}}, nil
	case "<", "<=", ">", ">=":
		if a.T.Sort == SStr {
			// same uninterpreted strict order as in code (exec.go)
			u := env.ft.e.u
			u.declFun("strlt", "(declare-fun strlt (Str Str) Bool)")
			u.axiom("(forall ((a Str) (b Str)) (! (=> (strlt a b) (not (strlt b a))) :pattern ((strlt a b))))")
			u.axiom("(forall ((a Str)) (! (not (strlt a a)) :pattern ((strlt a a))))")
			u.axiom("(forall ((a Str) (b Str)) (! (or (strlt a b) (strlt b a) (= a b)) :pattern ((strlt a b))))")
			var c string
			switch x.Op {
			case "<":
				c = sx("strlt", a.T.S, b.T.S)
			case ">":
				c = sx("strlt", b.T.S, a.T.S)
			case "<=":
				c = not(sx("strlt", b.T.S, a.T.S))
			default:
				c = not(sx("strlt", a.T.S, b.T.S))
			}
			return SVal{T: Term{c, SBool}}, nil
		}
		return SVal{T: Term{sx(x.Op, a.T.S, b.T.S), SBool}}, nil
	case "+":
		if a.T.Sort == SStr {
			return SVal{T: ft.concat(a.T, b.T), Typ: a.Typ}, nil
		}
		return SVal{T: Term{sx("+", a.T.S, b.T.S), SInt}, Typ: a.Typ}, nil
	case "-", "*":
		return SVal{T: Term{sx(x.Op, a.T.S, b.T.S), SInt}, Typ: a.Typ}, nil
	case "/":
		return SVal{T: Term{sx("div", a.T.S, b.T.S), SInt}, Typ: a.Typ}, nil
	case "%":
		return SVal{T: Term{sx("mod", a.T.S, b.T.S), SInt}, Typ: a.Typ}, nil
	}
	return SVal{}, fmt.Errorf("unknown operator %s", x.Op)
}

func (env *SpecEnv) quant(x EQuant) (SVal, error) {
	ft := env.ft
	saved := map[string]*SVal{}
	var binders []string
	for _, v := range x.Vars {
		t, err := env.resolveType(v.Type)
		var s Sort
		if err != nil {
			// ghost sorts (set[T], map[K]V) have no Go type
			var serr error
			if s, serr = env.resolveSpecSort(v.Type); serr != nil {
				return SVal{}, err
			}
			t = nil
		} else {
			s = ft.e.u.sortOf(t)
		}
		env.qn++
		name := fmt.Sprintf("q$%s$%d", v.Name, env.qn)
		if old, ok := env.vars[v.Name]; ok {
			o := old
			saved[v.Name] = &o
		} else {
			saved[v.Name] = nil
		}
		env.vars[v.Name] = SVal{T: Term{name, s}, Typ: t}
		binders = append(binders, fmt.Sprintf("(%s %s)", name, s))
	}
	ft.inQuant++
	body, err := env.evalBool(x.Body)
	var trigs []string
	for _, tr := range x.Trig {
		env.inTrigger = true
		tv, terr := env.eval(tr)
		env.inTrigger = false
		if terr != nil {
			err = terr
			break
		}
		trigs = append(trigs, tv.T.S)
	}
	var altPats []string
	for _, g := range x.TrigAlt {
		var ts []string
		for _, tr := range g {
			env.inTrigger = true
			tv, terr := env.eval(tr)
			env.inTrigger = false
			if terr != nil {
				err = terr
				break
			}
			ts = append(ts, tv.T.S)
		}
		altPats = append(altPats, fmt.Sprintf(":pattern (%s)", strings.Join(ts, " ")))
	}
	ft.inQuant--
	for k, v := range saved {
		if v == nil {
			delete(env.vars, k)
		} else {
			env.vars[k] = *v
		}
	}
	if err != nil {
		return SVal{}, err
	}
	q := "exists"
	if x.Forall {
		q = "forall"
	}
	if len(trigs) > 0 {
		body = fmt.Sprintf("(! %s :pattern (%s)%s)", body, strings.Join(trigs, " "), strings.Join(append([]string{""}, altPats...), " "))
	}
	return SVal{T: Term{fmt.Sprintf("(%s (%s) %s)", q, strings.Join(binders, " "), body), SBool}}, nil
}

func (env *SpecEnv) call(x ECall) (SVal, error) {
	ft := env.ft
	e := ft.e
	u := e.u
	if x.Fn == "loopold" {
		// loopold(e): e in the state in which the loop of this invariant was entered
		if len(x.Args) != 1 || env.fr == nil || env.fr.curLoopEntry == nil {
			return SVal{}, fmt.Errorf("loopold(e) is only available in loop invariants")
		}
		saveCur, saveOld := env.cur, env.inOld
		env.cur, env.inOld = env.fr.curLoopEntry, false
		// loop variables (header phis) denote their values on entry
		savedVals := map[*ssa.Phi]Val{}
		for phi, ev := range env.fr.curLoopEntryPhis {
			if cur, ok := env.fr.vals[phi]; ok {
				savedVals[phi] = cur
			}
			env.fr.vals[phi] = ev
		}
		v, err := env.eval(x.Args[0])
		for phi := range env.fr.curLoopEntryPhis {
			if cur, ok := savedVals[phi]; ok {
				env.fr.vals[phi] = cur
			} else {
				delete(env.fr.vals, phi)
			}
		}
		env.cur, env.inOld = saveCur, saveOld
		return v, err
	}
	if x.Fn == "iterold" {
		// iterold(e): e at the head of the current iteration (variants)
		if len(x.Args) != 1 || env.fr == nil || env.fr.curIterState == nil {
			return SVal{}, fmt.Errorf("iterold(e) is only available in decreases clauses")
		}
		saveCur, saveOld := env.cur, env.inOld
		env.cur, env.inOld = env.fr.curIterState, false
		savedVals := map[*ssa.Phi]Val{}
		for phi, ev := range env.fr.curIterPhis {
			if cur, ok := env.fr.vals[phi]; ok {
				savedVals[phi] = cur
			}
			env.fr.vals[phi] = ev
		}
		v, err := env.eval(x.Args[0])
		for phi := range env.fr.curIterPhis {
			if cur, ok := savedVals[phi]; ok {
				env.fr.vals[phi] = cur
			} else {
				delete(env.fr.vals, phi)
			}
		}
		env.cur, env.inOld = saveCur, saveOld
		return v, err
	}
	if x.Fn == "addr" {
		// addr(x): the address of the local variable x (a variable whose
		// address is taken lives in a cell; pointers to it compare equal to this)
		if len(x.Args) != 1 || env.fr == nil || env.fn == nil {
			return SVal{}, fmt.Errorf("addr(x) needs the name of a local variable")
		}
		name := exprString(x.Args[0])
		for _, b := range env.fn.Blocks {
			for _, ins := range b.Instrs {
				if a, ok := ins.(*ssa.Alloc); ok && a.Comment == name {
					if v, ok := env.fr.vals[a]; ok {
						return SVal{T: ft.termOf(v, a.Type()), Typ: a.Type(), V: &v}, nil
					}
				}
			}
		}
		return SVal{}, fmt.Errorf("addr(%s): no such address-taken local", name)
	}
	var args []SVal
	for _, a := range x.Args {
		v, err := env.eval(a)
		if err != nil {
			return SVal{}, err
		}
		args = append(args, v)
	}
	need := func(n int) error {
		if len(args) != n {
			return fmt.Errorf("%s takes %d arguments", x.Fn, n)
		}
		return nil
	}
	switch x.Fn {
	case "len":
		if err := need(1); err != nil {
			return SVal{}, err
		}
		switch args[0].T.Sort {
		case SSlice:
			return SVal{T: Term{sx("slen", args[0].T.S), SInt}, Typ: types.Typ[types.Int]}, nil
		case SStr:
			return SVal{T: Term{sx("strlen", args[0].T.S), SInt}, Typ: types.Typ[types.Int]}, nil
		}
		return SVal{}, fmt.Errorf("len of %s", args[0].T.Sort)
	case "ite":
		if err := need(3); err != nil {
			return SVal{}, err
		}
		return SVal{T: Term{ite(args[0].T.S, args[1].T.S, args[2].T.S), args[1].T.Sort}, Typ: args[1].Typ}, nil
	case "isnil":
		if err := need(1); err != nil {
			return SVal{}, err
		}
		if args[0].T.Sort == SSlice {
			return SVal{T: Term{eq(sx("sbase", args[0].T.S), "null"), SBool}}, nil
		}
		return SVal{T: Term{eq(args[0].T.S, "null"), SBool}}, nil
	case "dyntype":
		return SVal{T: Term{sx("dyntype", args[0].T.S), SInt}}, nil
	case "mapvals", "mapdom":
		// the value / key-set array of a Go map as a ghost total map
		if err := need(1); err != nil {
			return SVal{}, err
		}
		if args[0].Typ == nil {
			return SVal{}, fmt.Errorf("%s() needs a map", x.Fn)
		}
		mt, ok := args[0].Typ.Underlying().(*types.Map)
		if !ok {
			return SVal{}, fmt.Errorf("%s() needs a map", x.Fn)
		}
		dom, val, ks, vs := u.mapHeaps(mt)
		if x.Fn == "mapvals" {
			return SVal{T: Term{sel(env.ft.heapTerm(env.state(), val), args[0].T.S), arraySort(ks, vs)}}, nil
		}
		return SVal{T: Term{sel(env.ft.heapTerm(env.state(), dom), args[0].T.S), arraySort(ks, SBool)}}, nil
	case "sameArray":
		// sameArray(s, t): both slices are views of one backing array
		if err := need(2); err != nil {
			return SVal{}, err
		}
		if args[0].T.Sort != SSlice || args[1].T.Sort != SSlice {
			return SVal{}, fmt.Errorf("sameArray() needs two slices")
		}
		return SVal{T: Term{eq(sx("sbase", args[0].T.S), sx("sbase", args[1].T.S)), SBool}}, nil
	case "cast":
		// cast("T", x): x viewed as a value of Go type T (interface value holding a *T)
		if len(x.Args) == 2 {
			if ts, ok := x.Args[0].(EStr); ok {
				t, err := env.resolveType(ts.V)
				if err != nil {
					return SVal{}, err
				}
				return SVal{T: args[1].T, Typ: t}, nil
			}
		}
		return SVal{}, fmt.Errorf("cast needs (\"type\", value)")
	case "indeferred":
		// true iff the call being specified is executed as a deferred call (at function exit)
		if env.fr != nil && env.fr.inDeferred > 0 {
			return SVal{T: Term{"true", SBool}}, nil
		}
		return SVal{T: Term{"false", SBool}}, nil
	case "panicking":
		// true while a panic is propagating (deferred calls on the exceptional path)
		return SVal{T: Term{ft.heapTerm(env.state(), panickingHeap), SBool}}, nil
	case "zero":
		if s, ok := x.Args[0].(EStr); ok {
			t, err := env.resolveType(s.V)
			if err != nil {
				return SVal{}, err
			}
			return SVal{T: u.zero(t), Typ: t}, nil
		}
		return SVal{}, fmt.Errorf("zero needs a type name string")
	case "typeid":
		// typeid("pkg.T") or typeid of Go type expression
		if s, ok := x.Args[0].(EStr); ok {
			t, err := env.resolveType(s.V)
			if err != nil {
				return SVal{}, err
			}
			return SVal{T: Term{fmt.Sprint(u.typeID(t)), SInt}}, nil
		}
	case "store":
		if err := need(3); err != nil {
			return SVal{}, err
		}
		return SVal{T: Term{store(args[0].T.S, args[1].T.S, args[2].T.S), args[0].T.Sort}, Typ: args[0].Typ}, nil
	case "deref":
		if err := need(1); err != nil {
			return SVal{}, err
		}
		return env.deref(args[0])
	case "fmt.Sprintf":
		// the same uninterpreted function of the operands that the engine uses for
		// a call with this constant format
		lit, ok := x.Args[0].(EStr)
		if !ok {
			return SVal{}, fmt.Errorf("fmt.Sprintf in a specification needs a literal format")
		}
		var as []string
		var sorts []Sort
		for _, a := range args[1:] {
			if a.T.Sort != SStr && a.T.Sort != SInt && a.T.Sort != SBool {
				return SVal{}, fmt.Errorf("fmt.Sprintf in a specification: operands must be strings, integers or booleans")
			}
			as = append(as, a.T.S)
			sorts = append(sorts, a.T.Sort)
		}
		fn := u.sprintfUF(lit.V, sorts)
		if len(as) == 0 {
			return SVal{T: Term{fn, SStr}, Typ: types.Typ[types.String]}, nil
		}
		return SVal{T: Term{sx(fn, as...), SStr}, Typ: types.Typ[types.String]}, nil
	case "pathJoin":
		var as, sorts []string
		for _, a := range args {
			as = append(as, a.T.S)
			sorts = append(sorts, "Str")
		}
		fn := fmt.Sprintf("ext$path.Join$%d", len(args))
		u.declFun(fn, fmt.Sprintf("(declare-fun %s (%s) Str)", fn, strings.Join(sorts, " ")))
		return SVal{T: Term{sx(fn, as...), SStr}, Typ: types.Typ[types.String]}, nil
	case "bytes":
		// content of a []byte as a string value
		if err := need(1); err != nil {
			return SVal{}, err
		}
		if args[0].T.Sort != SSlice {
			return SVal{}, fmt.Errorf("bytes() needs a slice")
		}
		return SVal{T: env.ft.bytesStr(env.state(), args[0].T), Typ: types.Typ[types.String]}, nil
	}
	// spec function
	if sf, ok := e.cs.Specs[x.Fn]; ok && sf.Macro {
		if len(args) != len(sf.Params) || sf.Body == nil {
			return SVal{}, fmt.Errorf("%s: macro needs a body and %d arguments", x.Fn, len(sf.Params))
		}
		saved := map[string]*SVal{}
		for i, p := range sf.Params {
			if old, ok := env.vars[p.Name]; ok {
				o := old
				saved[p.Name] = &o
			} else {
				saved[p.Name] = nil
			}
			a := args[i]
			if a.Typ == nil {
				if t, err := env.resolveType(p.Type); err == nil {
					a.Typ = t
				}
			}
			env.vars[p.Name] = a
		}
		r, err := env.eval(sf.Body)
		for k, v := range saved {
			if v == nil {
				delete(env.vars, k)
			} else {
				env.vars[k] = *v
			}
		}
		return r, err
	}
	if sf, ok := e.cs.Specs[x.Fn]; ok {
		name, rs, err := e.declareSpecFunc(sf, env)
		if err != nil {
			return SVal{}, err
		}
		if len(args) != len(sf.Params) {
			return SVal{}, fmt.Errorf("%s takes %d arguments", x.Fn, len(sf.Params))
		}
		var as []string
		for _, a := range args {
			as = append(as, a.T.S)
		}
		var rt types.Type
		if t, err := env.resolveType(sf.Result); err == nil {
			rt = t
		}
		if len(as) == 0 {
			return SVal{T: Term{name, rs}, Typ: rt}, nil
		}
		return SVal{T: Term{sx(name, as...), rs}, Typ: rt}, nil
	}
	// pure external function used in spec: same UF as in code
	if strings.Contains(x.Fn, ".") {
		resIdx := 0
		fnName := x.Fn
		if i := strings.LastIndex(fnName, "$"); i > 0 {
			if k, err := strconv.Atoi(fnName[i+1:]); err == nil {
				resIdx = k
				fnName = fnName[:i]
			}
		}
		var as, sorts []string
		for _, a := range args {
			as = append(as, a.T.S)
			sorts = append(sorts, string(a.T.Sort))
		}
		rs, ok := e.pureResultSortN(fnName, resIdx)
		if !ok {
			// package given by its name instead of its import path (url.QueryEscape)
			if i := strings.LastIndex(fnName, "."); i > 0 {
				for _, p := range e.prog.AllPackages() {
					if p.Pkg.Name() == fnName[:i] && p.Func(fnName[i+1:]) != nil && !strings.Contains(p.Pkg.Path(), "/internal/") && !strings.Contains(p.Pkg.Path(), "vendor/") {
						if rs2, ok2 := e.pureResultSortN(p.Pkg.Path()+"."+fnName[i+1:], resIdx); ok2 {
							rs, ok, fnName = rs2, true, p.Pkg.Path()+"."+fnName[i+1:]
							break
						}
					}
				}
			}
		}
		if !ok {
			return SVal{}, fmt.Errorf("unknown pure function %s", x.Fn)
		}
		fn := fmt.Sprintf("ext$%s$%d", mangle(fnName), resIdx)
		u.declFun(fn, fmt.Sprintf("(declare-fun %s (%s) %s)", fn, strings.Join(sorts, " "), rs))
		return SVal{T: Term{sx(fn, as...), rs}}, nil
	}
	return SVal{}, fmt.Errorf("unknown function %s", x.Fn)
}

// declareSpecFunc declares (and defines) a spec function in the universe.
func (e *Engine) declareSpecFunc(sf *SpecFunc, env *SpecEnv) (string, Sort, error) {
	name := "spec$" + sf.Name
	rt, err := env.resolveSpecSort(sf.Result)
	if err != nil {
		return "", "", err
	}
	if _, ok := e.u.funs[name]; ok {
		return name, rt, nil
	}
	var sorts []string
	var binders []string
	sub := &SpecEnv{fr: env.fr, ft: env.ft, vars: map[string]SVal{}, cur: env.cur, old: env.old, pkg: env.pkg}
	if p := e.specPkg(sf); p != nil {
		sub.pkg = p
	}
	for _, p := range sf.Params {
		s, err := sub.resolveSpecSort(p.Type)
		if err != nil {
			return "", "", fmt.Errorf("spec %s: %v", sf.Name, err)
		}
		sorts = append(sorts, string(s))
		pn := "p$" + p.Name
		binders = append(binders, fmt.Sprintf("(%s %s)", pn, s))
		var gt types.Type
		if t, err := sub.resolveType(p.Type); err == nil {
			gt = t
		}
		sub.vars[p.Name] = SVal{T: Term{pn, s}, Typ: gt}
	}
	if sf.Body == nil {
		if len(sorts) == 0 {
			e.u.declFun(name, fmt.Sprintf("(declare-const %s %s)", name, rt))
		} else {
			e.u.declFun(name, fmt.Sprintf("(declare-fun %s (%s) %s)", name, strings.Join(sorts, " "), rt))
		}
		return name, rt, nil
	}
	// non-recursive definition: macro (keeps queries quantifier free)
	if e.specInProgress[sf.Name] {
		return "", "", fmt.Errorf("spec %s is recursive: not supported", sf.Name)
	}
	e.specInProgress[sf.Name] = true
	sub.ft.inQuant++
	b, err := sub.eval(sf.Body)
	sub.ft.inQuant--
	delete(e.specInProgress, sf.Name)
	if err != nil {
		return "", "", fmt.Errorf("spec %s: %v", sf.Name, err)
	}
	if b.T.Sort != rt {
		return "", "", fmt.Errorf("spec %s: body has sort %s, declared %s", sf.Name, b.T.Sort, rt)
	}
	e.u.declFun(name, fmt.Sprintf("(define-fun %s (%s) %s %s)", name, strings.Join(binders, " "), rt, b.T.S))
	return name, rt, nil
}

func (env *SpecEnv) resolveSpecSort(s string) (Sort, error) {
	s = strings.TrimSpace(s)
	switch s {
	case "int", "int64":
		return SInt, nil
	case "bool":
		return SBool, nil
	case "string":
		return SStr, nil
	case "ref":
		return SRef, nil
	}
	if strings.HasPrefix(s, "map[") {
		// ghost total map
		d := 0
		for i := 4; i < len(s); i++ {
			switch s[i] {
			case '[':
				d++
			case ']':
				if d == 0 {
					k, err := env.resolveSpecSort(s[4:i])
					if err != nil {
						return "", err
					}
					v, err := env.resolveSpecSort(s[i+1:])
					if err != nil {
						return "", err
					}
					return arraySort(k, v), nil
				}
				d--
			}
		}
	}
	if strings.HasPrefix(s, "set[") && strings.HasSuffix(s, "]") {
		k, err := env.resolveSpecSort(s[4 : len(s)-1])
		if err != nil {
			return "", err
		}
		return arraySort(k, SBool), nil
	}
	t, err := env.resolveType(s)
	if err != nil {
		return "", err
	}
	return env.ft.e.u.sortOf(t), nil
}

func (env *SpecEnv) noteLoad(t Term) { env.noteLoadFrom(t, "") }

// noteLoadFrom: a ground reference read by a postcondition, and the heap
// version it was read from (values of an entry heap were allocated at entry).
func (env *SpecEnv) noteLoadFrom(t Term, heapTerm string) {
	if env.ft.inQuant > 0 || env.inOld {
		return
	}
	if t.Sort == SRef || t.Sort == SSlice {
		env.loads = append(env.loads, t)
		env.loadEntry = append(env.loadEntry, strings.HasSuffix(heapTerm, "@0"))
	}
}

// localNamedType resolves a type declared inside the function under
// verification (or an enclosing function): T, *T, []T, []*T.
func (env *SpecEnv) localNamedType(s string) types.Type {
	switch {
	case strings.HasPrefix(s, "*"):
		if t := env.localNamedType(s[1:]); t != nil {
			return types.NewPointer(t)
		}
		return nil
	case strings.HasPrefix(s, "[]"):
		if t := env.localNamedType(s[2:]); t != nil {
			return types.NewSlice(t)
		}
		return nil
	}
	if strings.ContainsAny(s, ".[]( ") {
		return nil
	}
	var found types.Type
	var visit func(t types.Type, depth int)
	visit = func(t types.Type, depth int) {
		if found != nil || t == nil || depth > 4 {
			return
		}
		switch x := t.(type) {
		case *types.Named:
			if x.Obj().Name() == s && x.Obj().Parent() != nil && x.Obj().Pkg() != nil && x.Obj().Parent() != x.Obj().Pkg().Scope() {
				found = x
			}
		case *types.Pointer:
			visit(x.Elem(), depth+1)
		case *types.Slice:
			visit(x.Elem(), depth+1)
		case *types.Map:
			visit(x.Key(), depth+1)
			visit(x.Elem(), depth+1)
		}
	}
	start := env.fn
	if start == nil && env.fr != nil {
		start = env.fr.fn
	}
	for fn := start; fn != nil && found == nil; fn = fn.Parent() {
		for _, p := range fn.Params {
			visit(p.Type(), 0)
		}
		for _, fv := range fn.FreeVars {
			visit(fv.Type(), 0)
		}
		for _, b := range fn.Blocks {
			for _, ins := range b.Instrs {
				if v, ok := ins.(ssa.Value); ok {
					visit(v.Type(), 0)
				}
			}
		}
	}
	return found
}
