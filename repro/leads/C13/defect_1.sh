#!/bin/bash
# Defect 1 (property C13): missing-approve FORGETS a device that needs approve.
#
# History (strictly increasing clock, all steps done with the real binaries
# do-approve / missing-approve against the simulated IOS router):
#   t1  policy p1, code A.  "do-approve compare router": device carries A
#                                       -> status compare = UPTODATE/p1/t1
#   t2  policy p2, code B.  "do-approve approve router": OK, device now carries B
#                                       -> status approve = OK/p2/t2
#   t3  policy p3, code A again (change was rolled back in Netspoc).
#       "do-approve approve router" FAILS at login (device untouched, still B)
#                                       -> status approve = FAILED/p3/t3
#       status.SetApprove overwrites the only record of the successful
#       approve of p2 with the FAILED entry.
#   missing-approve now sees approve=FAILED, falls back to the OLDER compare
#   (UPTODATE/p1/t1), finds code(p1) == code(p3) and prints NOTHING.
#
# Violation: the latest conclusive observation is the successful approve of p2
# at t2 (the failed approve at t3 leaves the device as it was).  It establishes
# that the device carries code B, which differs from the current policy's
# code A.  C13 requires the device to be listed; it is omitted, so approve-all
# never repairs it.  The final compare in this script proves the device really
# differs from the current policy.
#
# Usage: defect_1.sh        (env SRC = go module root, default /tmp/wt/C13a/go;
#                            env BIN = dir with do-approve + missing-approve,
#                            built from $SRC if unset)
set -e
export GOFLAGS=-mod=mod GOPROXY=off GOSUMDB=off GOTOOLCHAIN=local
SRC=${SRC:-/tmp/wt/C13a/go}
W=$(mktemp -d /tmp/C13a-scratch/d1.XXXXXX)
if [ -z "$BIN" ]; then
    BIN=$W/bin
    mkdir -p $BIN
    (cd $SRC && go build -o $BIN/do-approve ./cmd/do-approve &&
         go build -o $BIN/missing-approve ./cmd/missing-approve)
fi
SIM=$SRC/testdata/simulate-cisco.pl

export HOME=$W
unset LANG
mkdir -p $W/policies $W/status $W/lock $W/history
cat > $W/.netspoc-approve <<EOF
basedir = $W
checkbanner = NetSPoC
systemuser = admin
timeout = 1
EOF
echo "* admin secret" > $W/credentials

CODE_A="ip route 10.20.0.0 255.255.0.0 10.1.2.3"
CODE_B="ip route 10.20.0.0 255.255.0.0 10.1.2.4"

new_policy() { # name code
    mkdir -p $W/policies/$1/code
    echo "$2" > $W/policies/$1/code/router
    cat > $W/policies/$1/code/router.info <<EOF
{"model":"IOS","name_list":["router"],"ip_list":["10.1.13.33"]}
EOF
    ln -sfn $1 $W/policies/current
}

scenario_ok() { # running-config of device
    cat > $W/scenario <<EOF
Enter Password:<!>
banner motd  managed by NetSPoC
router>
# sh ver
Cisco IOS Software, C2900 Software (C2900-UNIVERSALK9-M), Version 15.1(4)M4,
# configure terminal
Enter configuration commands, one per line.  End with CNTL/Z.
# reload in 2

System configuration has been modified. Save? [yes/no]: <!>
Reload reason: Reload Command
Proceed with reload? [confirm]<!>
# reload cancel


***
*** --- SHUTDOWN ABORTED ---
***
# write memory
Building configuration...
  Compressed configuration from 106098 bytes to 30504 bytes[OK]
# sh run
$1
END
EOF
}
scenario_login_fails() {
    printf 'Enter Password:<!>\nEnter Password:<!>\n' > $W/scenario
}
export SIMULATE_ROUTER="$SIM router $W/scenario"

run() { # time, args...
    export TEST_TIME="$1"; shift
    echo "--- [$TEST_TIME] policy=$(readlink $W/policies/current): do-approve $*"
    (cd $W && $BIN/do-approve "$@") 2>&1 | sed 's/^/    /' || true
    echo "    status: $(cat $W/status/router)"
}

new_policy p1 "$CODE_A"
scenario_ok "$CODE_A"                       # device carries A
run "2024-Sep-29 10:00:00" compare router   # -> UPTODATE p1

new_policy p2 "$CODE_B"
scenario_ok "$CODE_A"                       # device still A, approve changes it to B
run "2024-Sep-29 11:00:00" approve router   # -> OK p2
echo "    commands sent to device:"; grep "ip route" $W/policies/p2/log/router.change | sed "s/^/      /"

new_policy p3 "$CODE_A"
scenario_login_fails                        # device unreachable; it still carries B
run "2024-Sep-29 12:00:00" approve router   # -> FAILED p3

unset TEST_TIME
echo "=== missing-approve (expected by C13: 'router'; device carries B, policy p3 wants A):"
OUT=$(cd $W && $BIN/missing-approve)
echo "    output: '$OUT'"

echo "=== proof that device differs from current policy: compare against device carrying B"
scenario_ok "$CODE_B"
run "2024-Sep-29 13:00:00" compare router

if [ -z "$OUT" ]; then
    echo "DEFECT CONFIRMED: missing-approve omitted 'router' although last successful approve installed different code"
    RC=1
else
    echo "not reproduced (device was listed)"
    RC=0
fi
rm -rf $W
exit $RC
