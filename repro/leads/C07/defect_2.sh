#!/bin/bash
# C07 defect 2 (ASA): an object-group of the administrator (name without
# "-DRC-"), referenced by an unmanaged ACL, is taken over by Approve and
# later changed in place.
#
# ADMIN_SERVERS is defined by the administrator and used in ACL NAT_EXEMPT,
# which is referenced only by a line the tool does not model
# ("nat (inside) 0 access-list NAT_EXEMPT"); NAT_EXEMPT is not reachable from
# any managed anchor and has no -DRC- tag, so ADMIN_SERVERS is "an object such
# an object references" and must never be altered.
# Run B: Netspoc inserts an ACL line using group g0, which happens to have the
#   same elements. findGroupOnDevice (go/pkg/cisco/diff.go) picks ANY device
#   object-group with equal elements, regardless of name / other users:
#   the managed ACL now references ADMIN_SERVERS (no textual change yet).
# Run C: Netspoc adds an element to g0. equalizedGroups changes ADMIN_SERVERS
#   in place -> also changes the semantics of the unmanaged NAT_EXEMPT ACL.
# (Deletion is guarded by 'stillReferenced' in deleteUnused, modification is not.)
set -e
export GOFLAGS=-mod=mod GOPROXY=off GOSUMDB=off GOTOOLCHAIN=local
DRC=${DRC:-${BIN:-}}
D=$(mktemp -d)
if [ -z "$DRC" ]; then
  DRC=$D/drc; (cd /tmp/wt/C07b/go && go build -o $DRC ./cmd/drc)
fi
cd $D
cat > devB <<'END'
interface Ethernet0/0
 nameif inside
 ip address 10.1.1.1 255.255.255.0
object-group network ADMIN_SERVERS
 network-object host 10.0.0.1
 network-object host 10.0.0.2
access-list NAT_EXEMPT extended permit ip object-group ADMIN_SERVERS any4
nat (inside) 0 access-list NAT_EXEMPT
access-list inside_in-DRC-0 extended deny ip any4 any4
access-group inside_in-DRC-0 in interface inside
END
cat > spocB <<'END'
object-group network g0
 network-object host 10.0.0.1
 network-object host 10.0.0.2
access-list inside_in extended permit tcp object-group g0 any4 eq 80
access-list inside_in extended deny ip any4 any4
access-group inside_in in interface inside
END
echo '{"model":"ASA","name_list":["router"],"ip_list":["10.1.13.33"]}' > spocB.info
cp spocB.info spocC.info
echo "=== run B (adopts the administrator's group):"
$DRC -q devB spocB
# Device after run B = devB + the one line printed above at position 1.
sed 's/^access-list inside_in-DRC-0 extended deny/access-list inside_in-DRC-0 extended permit tcp object-group ADMIN_SERVERS any4 eq 80\n&/' devB > devC
echo "=== device is in sync after run B (no output expected):"
$DRC -q devC spocB
sed 's/^ network-object host 10.0.0.2/&\n network-object host 10.0.0.3/' spocB > spocC
echo "=== run C (Netspoc group g0 got a third element):"
$DRC -q devC spocC
# Observed (unchanged code):
# run B: access-list inside_in-DRC-0 line 1 extended permit tcp object-group ADMIN_SERVERS any4 eq 80
# run C: object-group network ADMIN_SERVERS
#        network-object host 10.0.0.3
