#!/bin/sh
# Lead (d), Linux: the same "*table" (e.g. *filter) appears twice in the raw
# file.
#
# VERDICT: CONFIRMED DEFECT (unchanged code).
# go/pkg/linux/parse.go parseIPTables():
#     case '*':  name := line[1:]; cMap = make(chains); tb[name] = cMap
# A second "*filter" replaces the chain map of the first one, so every chain
# and rule of the first block is dropped.  Same one level deeper:
#     case ':':  cMap[name] = &chain{policy: policy}
# a repeated ":INPUT DROP" line inside one table throws away all rules
# collected for INPUT so far.
#
# case 1 raw:                                   merged output (rc=0, no message):
#   *filter                                      *filter
#   :INPUT DROP                                  :INPUT DROP
#   -A INPUT -i eth0 -s 10.9.9.0/24 -j ACCEPT    -A INPUT -i eth0 -s 10.8.8.0/24 -j ACCEPT
#   COMMIT                                       -A INPUT -i eth0 -s 10.0.6.0/24 ... -j ACCEPT
#   *filter                                      -A INPUT -j DROP
#   :INPUT DROP                                  COMMIT
#   -A INPUT -i eth0 -s 10.8.8.0/24 -j ACCEPT
#   COMMIT
#   -> raw rule "-s 10.9.9.0/24" is silently lost.
# case 2: one *filter, but ":INPUT DROP" repeated between the two rules:
#   same output, rule "-s 10.9.9.0/24" silently lost.
#
# Proposed fix: /tmp/inv1-scratch/lead_d.diff (abort on duplicate table and on
# duplicate chain definition in parseIPTables; iptables-save output from a
# device never has duplicates):
#   ERROR>>> Duplicate definition of table "filter"
#   ERROR>>> Duplicate definition of chain "INPUT"
# Test suite result identical to unpatched code.

DRC=${DRC:-/tmp/inv1-scratch/drc}
T=$(mktemp -d); cd "$T" || exit 1
echo '{"model":"Linux","name_list":["router"],"ip_list":["10.1.13.33"]}' > router.info
echo "#NONE" > dev
cat > router <<'EOF'
*filter
:INPUT DROP
-A INPUT -i eth0 -s 10.0.6.0/24 -d 10.0.1.11/32 -p udp --dport 123 -j ACCEPT
-A INPUT -j DROP
EOF

echo "=== case 1: *filter twice in raw   (rule -s 10.9.9.0/24 silently lost)"
cat > router.raw <<'EOF'
*filter
:INPUT DROP
-A INPUT -i eth0 -s 10.9.9.0/24 -j ACCEPT
COMMIT
*filter
:INPUT DROP
-A INPUT -i eth0 -s 10.8.8.0/24 -j ACCEPT
COMMIT
EOF
$DRC -q dev router; echo "rc=$?"

echo "=== case 2: ':INPUT DROP' twice inside one *filter   (rule -s 10.9.9.0/24 silently lost)"
cat > router.raw <<'EOF'
*filter
:INPUT DROP
-A INPUT -i eth0 -s 10.9.9.0/24 -j ACCEPT
:INPUT DROP
-A INPUT -i eth0 -s 10.8.8.0/24 -j ACCEPT
COMMIT
EOF
$DRC -q dev router; echo "rc=$?"
rm -rf "$T"
