#!/bin/bash
# Defect 4 (C20): ASA. "crypto map NAME SEQ set ikev1 transform-set ..." (also ikev2
# ipsec-proposal, crypto dynamic-map) with more than 11 names (token duplication; ASA itself
# allows at most 11).  postprocessParsed/setTransRef stores one reference per name in c.ref
# but gives the command type exactly 11 entries in typ.ref; checkReferences then reads
# c.typ.ref[11] (pkg/cisco/parse.go:169): "index out of range [11] with length 11",
# exit status 2, no diagnostic.
. "$(dirname "$0")/common.inc"
cd "$T"
cat > dev <<'END'
crypto ipsec ikev1 transform-set a esp-aes esp-sha-hmac
crypto map m 10 set ikev1 transform-set a a a a a a a a a a a a
END
: > spoc
echo '{"model":"ASA","name_list":["router"],"ip_list":["10.1.13.33"]}' > spoc.info
run -q dev spoc
