#!/bin/bash
# NOTE: the device used for "run 2" is the hand-computed result of applying the output
# of run 1 of the UNCHANGED code; with a fixed binary only run 1 is meaningful.
# C01 defect 4: an interface ACL with a single line is emptied for a moment,
# which makes a real ASA delete the ACL *and its access-group*.
#
# Cisco ASA command reference, "access-group", usage guidelines (quoted from
# memory, could not be checked offline, no ASA available here): "If all of
# the functional entries (the permit and deny statements) are removed from an
# ACL that is referenced by one or more access-group commands, the
# access-group commands are automatically removed from the configuration."
# diffCmds() knows this for the "nothing equal" case (builds a new ACL), but
# diffASAACLs() implements a move as "no <line>" + "<line>" sent together.
# If the ACL has exactly one line and that line is moved before anything was
# added, the first half empties the ACL.
#
# Device:  one line  "permit ip object-group g1-DRC-0 any4"
# Target:  same rule now with 'log', followed by a new rule of the same shape
#          with another group.
# The device line is 'equal' (modulo group) to the 2nd target line, the groups
# can't be equalized -> replace; the 1st target line equals the device line
# modulo 'log' -> move. Emitted first command:
#   no access-list outside_in-DRC-0 line 1 ... \N access-list outside_in-DRC-0 line 1 ... log
# After "no ..." the ASA has dropped ACL and "access-group outside_in-DRC-0 in
# interface outside"; the ACL is re-created, the access-group is not, and no
# later command restores it: interface 'outside' ends up without ACL.
# Result not equivalent to target; 2nd compare reports a change.
set -e
export GOFLAGS=-mod=mod GOPROXY=off GOSUMDB=off GOTOOLCHAIN=local
T=$(mktemp -d /tmp/C01a-defect.XXXXXX)
DRC=${DRC:-${BIN:-}}
if [ -z "$DRC" ]; then
  DRC=$T/drc
  (cd ${SRC:-/tmp/wt/C01a/go} && go build -o $DRC ./cmd/drc)
fi
info() { echo '{"model":"ASA","name_list":["router"],"ip_list":["10.1.13.33"]}' > "$1.info"; }
cd $T
cat > dev <<'END'
interface Ethernet0/1
 nameif outside
object-group network g0-DRC-0
 network-object host 10.0.0.3
 network-object host 10.0.0.5
object-group network g1-DRC-0
 network-object host 10.0.0.3
access-list outside_in-DRC-0 extended permit ip object-group g1-DRC-0 any4
access-group outside_in-DRC-0 in interface outside
END
cat > spoc <<'END'
object-group network g0
 network-object host 10.0.0.3
 network-object host 10.0.0.5
object-group network g1
 network-object host 10.0.0.3
access-list outside_in extended permit ip object-group g1 any4 log
access-list outside_in extended permit ip object-group g0 any4
access-group outside_in in interface outside
END
info spoc
echo "### run 1: first command removes the only line of the bound ACL"
$DRC dev spoc
echo "### run 2 on resulting device (access-group auto-removed by ASA), expected: no output"
cat > dev2 <<'END'
interface Ethernet0/1
 nameif outside
object-group network g0-DRC-0
 network-object host 10.0.0.3
 network-object host 10.0.0.5
object-group network g1-DRC-0
 network-object host 10.0.0.3
access-list outside_in-DRC-0 extended permit ip object-group g1-DRC-0 any4 log
access-list outside_in-DRC-0 extended permit ip object-group g0-DRC-0 any4
END
$DRC dev2 spoc
