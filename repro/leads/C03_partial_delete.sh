#!/bin/sh
# Reproducer for C03 defect in pkg/panos/diff.go, (*rulesPair).equalize:
# hasEqualizedLists appends "action=delete ... member" commands to the result
# script BEFORE it knows whether the incremental change of the list succeeds.
# If a later nested group pair can't be equalized it returns false, the device
# group is neither marked as needed nor is its in-memory member list changed,
# but the delete command stays in the script.  The device group is then reused
# on the basis of its stale member list.
#
# Usage: repro.sh [path-to-drc]     (default /tmp/inv2-scratch/drc)
DRC=${1:-/tmp/inv2-scratch/drc}
D=$(mktemp -d)
trap 'rm -rf "$D"' EXIT

rule() { # name source
cat <<EOF
<entry name="$1">
<action>allow</action>
<from><member>z1</member></from>
<to><member>z2</member></to>
<source><member>$2</member></source>
<destination><member>NET_10.1.2.0_24</member></destination>
<service><member>tcp 80</member></service>
<application><member>any</member></application>
<rule-type>interzone</rule-type>
<log-start>yes</log-start>
<log-end>yes</log-end>
</entry>
EOF
}
group() { # name member...
    n=$1; shift
    printf '<entry name="%s"><static>' "$n"
    for m in "$@"; do printf '<member>%s</member>' "$m"; done
    printf '</static></entry>\n'
}
common() {
cat <<EOF
<address>
<entry name="IP_10.1.1.1"><ip-netmask>10.1.1.1/32</ip-netmask></entry>
<entry name="IP_10.1.1.2"><ip-netmask>10.1.1.2/32</ip-netmask></entry>
<entry name="IP_10.1.1.3"><ip-netmask>10.1.1.3/32</ip-netmask></entry>
<entry name="IP_10.1.1.4"><ip-netmask>10.1.1.4/32</ip-netmask></entry>
<entry name="IP_10.1.1.5"><ip-netmask>10.1.1.5/32</ip-netmask></entry>
<entry name="NET_10.1.2.0_24"><ip-netmask>10.1.2.0/24</ip-netmask></entry>
</address>
<service>
<entry name="tcp 80"><protocol><tcp><port>80</port></tcp></protocol></entry>
</service>
EOF
}
PRE='<config><devices><entry name="localhost.localdomain"><vsys><entry name="vsys2">'
POST='</entry></vsys></entry></devices></config>'

# ---------------------------------------------------------------- DEVICE
# r0: source h2            h2 = {IP4, IP5}
# r1: source G             G  = {IP1, h1}      h1 = {IP2, IP3}
# r2: source G
{
echo "$PRE"
echo '<rulebase><security><rules>'
rule r0 h2
rule r1 G
rule r2 G
echo '</rules></security></rulebase>'
echo '<address-group>'
group G  IP_10.1.1.1 h1
group h1 IP_10.1.1.2 IP_10.1.1.3
group h2 IP_10.1.1.4 IP_10.1.1.5
echo '</address-group>'
common
echo "$POST"
} > "$D/device"

# ---------------------------------------------------------------- NETSPOC
# r0: source h2            h2  = {IP4, IP5}                    (unchanged)
# r1: source GB            GB  = {h2}         = {IP4, IP5}
# r2: source GB2           GB2 = {IP1, h1}    h1 = {IP2, IP3}  (= old G)
{
echo "$PRE"
echo '<rulebase><security><rules>'
rule r0 h2
rule r1 GB
rule r2 GB2
echo '</rules></security></rulebase>'
echo '<address-group>'
group GB  h2
group GB2 IP_10.1.1.1 h1
group h1  IP_10.1.1.2 IP_10.1.1.3
group h2  IP_10.1.1.4 IP_10.1.1.5
echo '</address-group>'
common
echo "$POST"
} > "$D/router"
echo '{"model":"PAN-OS","name_list":["router"],"ip_list":["10.1.13.33"]}' \
     > "$D/router.info"

echo "=== drc -q device netspoc"
"$DRC" -q "$D/device" "$D/router" | python3 -c '
import sys, urllib.parse
for l in sys.stdin: print(urllib.parse.unquote_plus(l.rstrip()))'
echo "=== exit status of drc pipeline: $?"

# Expected (buggy) output, 3 commands:
#
#  1 action=set    .../address-group/entry[@name='GB']/static
#                     element=<member>h2</member>
#  2 action=delete .../address-group/entry[@name='G']/static
#                     /member[text()='IP_10.1.1.1']
#  3 action=edit   .../rules/entry[@name='r1']/source
#                     element=<source><member>GB</member></source>
#
# How the planner gets there (diff.go, equalize):
#  r0: hasEqualizedGroups(dev h2, spoc h2) succeeds without commands;
#      spoc h2.nameOnDevice = "h2".
#  r1: hasEqualizedGroups(dev G, spoc GB)
#        -> hasEqualizedLists([IP1, h1], [h2], ".../G/static")
#           Myers: delete IP1, then equal (group h1 ~ group h2).
#           Heuristic: d=1, u=1, 2*d > u+1 is false -> go on incrementally.
#           delete range: command 2 is appended to result  <-- premature
#           equal range : hasEqualizedGroups(dev h1, spoc h2) returns false,
#                         because spoc h2.nameOnDevice = "h2" != "h1".
#           returns false.
#      G is NOT marked needed, G.Members is still [IP1, h1] in memory.
#      equalizeList falls back to command 3 (edit r1/source := GB); GB is
#      transferred with command 1.
#  r2: hasEqualizedGroups(dev G, spoc GB2)
#        -> hasEqualizedLists([IP1, h1], [IP1, h1]): all equal, nested
#           h1 ~ h1 is equal -> true, no commands.
#      G is marked needed and bound to GB2, "nothing to do for r2".
#
# Executing commands 1..3 in order on the device candidate config:
#   GB = {h2}                       (new)
#   G  = {h1}                       (IP_10.1.1.1 removed by command 2)
#   r1.source = GB = {IP4, IP5}     ok
#   r2.source = G  = {IP2, IP3}     TARGET: GB2 = {IP1, IP2, IP3}
# => rule r2 on the device no longer permits source 10.1.1.1; the device is
#    not equivalent to the Netspoc target although drc reports the device
#    as fully handled.  A second compare (see below) reports a change:
#    action=set .../address-group/entry[@name='G']/static <member>IP_10.1.1.1
#    i.e. the first run was not a fixed point.

# ------------------------------------------------ device after commands 1..3
{
echo "$PRE"
echo '<rulebase><security><rules>'
rule r0 h2
rule r1 GB
rule r2 G
echo '</rules></security></rulebase>'
echo '<address-group>'
group G  h1
group h1 IP_10.1.1.2 IP_10.1.1.3
group h2 IP_10.1.1.4 IP_10.1.1.5
group GB h2
echo '</address-group>'
common
echo "$POST"
} > "$D/device2"
echo
echo "=== second compare: drc -q device-after-commands netspoc"
"$DRC" -q "$D/device2" "$D/router" | python3 -c '
import sys, urllib.parse
for l in sys.stdin: print(urllib.parse.unquote_plus(l.rstrip()))'
