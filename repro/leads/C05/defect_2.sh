#!/bin/bash
# C05 defect 2: tables / builtin chains that exist only on the device are
# reported as difference but never cleaned up -> no convergence, device stays
# non-equivalent to the target.
#
# diffIPTables() reports "iptables differs at [tables: nat<->]" (or
# "[chains: INPUT,...<->]") when the device shows a table or builtin chain that
# the target does not name.  The emitted iptables-restore file is built from
# the target only; iptables-restore touches only tables named in its input
# and keeps policies of builtin chains that are not named.  Hence
#  (a) rules of a device-only table (here: DNAT + MASQUERADE in *nat) stay
#      active for ever although every approve run "succeeds";
#  (b) a target table that names only some builtin chains (as the repo's own
#      raw example in linux_raw.t: "*mangle / :PREROUTING ACCEPT") can never
#      compare equal, because iptables-save always prints all builtin chains;
#  (c) the complete ruleset is reloaded on every approve run.
# Property violated: executing the emitted file must yield a ruleset whose
# tables/chains/rules equal the target's, and the next compare must be empty.
#
# Part 1 uses canned device answers (verbatim from iptables-legacy 1.8.9).
# Part 2 repeats it against the real kernel in a fresh network namespace if
# `unshare -n` and iptables-legacy-restore are usable (skipped otherwise).
set -e
SRC=${SRC:-/tmp/wt/C05a/go}
T=$(mktemp -d); trap 'rm -rf $T' EXIT
if [ -z "$DRC" ]; then
  export GOFLAGS=-mod=mod GOPROXY=off GOSUMDB=off GOTOOLCHAIN=local
  (cd $SRC && go build -o $T/drc ./cmd/drc); DRC=$T/drc
fi
cd $T
mkdir code
echo '{"model":"Linux","name_list":["router"],"ip_list":["10.1.13.33"]}' > code/router.info
cat > code/router <<'EON'
*filter
:INPUT DROP
:FORWARD DROP
:OUTPUT ACCEPT
-A INPUT -j ACCEPT -m state --state ESTABLISHED,RELATED
-A FORWARD -j ACCEPT -s 10.1.1.0/24 -d 10.9.9.9 -p tcp --dport 80
COMMIT
EON
# Device before approve: only a nat table (someone had configured NAT by hand,
# or it is left over from an earlier raw file).
cat > dev1 <<'EOD'
*nat
:PREROUTING ACCEPT [0:0]
:INPUT ACCEPT [0:0]
:OUTPUT ACCEPT [0:0]
:POSTROUTING ACCEPT [0:0]
-A PREROUTING -i eth1 -p tcp -m tcp --dport 8080 -j DNAT --to-destination 10.1.1.77:80
-A POSTROUTING -s 10.1.1.0/24 -o eth1 -j MASQUERADE
COMMIT
EOD
# Device after loading the file emitted below (real iptables-save answer).
cat > dev2 <<'EOD'
*filter
:INPUT DROP [0:0]
:FORWARD DROP [0:0]
:OUTPUT ACCEPT [0:0]
-A INPUT -m state --state RELATED,ESTABLISHED -j ACCEPT
-A FORWARD -s 10.1.1.0/24 -d 10.9.9.9/32 -p tcp -m tcp --dport 80 -j ACCEPT
COMMIT
*nat
:PREROUTING ACCEPT [0:0]
:INPUT ACCEPT [0:0]
:OUTPUT ACCEPT [0:0]
:POSTROUTING ACCEPT [0:0]
-A PREROUTING -i eth1 -p tcp -m tcp --dport 8080 -j DNAT --to-destination 10.1.1.77:80
-A POSTROUTING -s 10.1.1.0/24 -o eth1 -j MASQUERADE
COMMIT
EOD
echo "##### Part 1a: device has table nat with rules, target has only filter"
echo "--- run 1 (emitted file has no *nat section, so nat is not flushed):"
$DRC -q dev1 code/router | tee run1
if grep -q '^\*nat' run1; then
  echo "=> ok: emitted file flushes table nat"
else
  echo "--- run 2, device state after loading that file:"
  $DRC -q dev2 code/router
  echo "=> VIOLATION: same change reported again; DNAT/MASQUERADE remain active."
fi

echo
echo "##### Part 1b: target names one builtin chain of mangle (repo's raw example)"
cat > code/router.raw <<'EON'
*mangle
:PREROUTING ACCEPT
-A PREROUTING -j MARK --set-xmark 0x01 -p TCP --dport 80
EON
cat > dev3 <<'EOD'
*filter
:INPUT DROP [0:0]
:FORWARD DROP [0:0]
:OUTPUT ACCEPT [0:0]
-A INPUT -m state --state RELATED,ESTABLISHED -j ACCEPT
-A FORWARD -s 10.1.1.0/24 -d 10.9.9.9/32 -p tcp -m tcp --dport 80 -j ACCEPT
COMMIT
*mangle
:PREROUTING ACCEPT [0:0]
:INPUT ACCEPT [0:0]
:FORWARD ACCEPT [0:0]
:OUTPUT ACCEPT [0:0]
:POSTROUTING ACCEPT [0:0]
-A PREROUTING -p tcp -m tcp --dport 80 -j MARK --set-xmark 0x1/0xffffffff
COMMIT
EOD
echo "--- device state right after loading the target (real iptables-save answer):"
$DRC -q dev3 code/router | head -1 > run3; cat run3
if [ -s run3 ]; then
  echo "=> VIOLATION: an exactly matching device is reported as changed, for ever."
else
  echo "=> ok: no change"
fi
rm code/router.raw

echo
echo "##### Part 2: the same against the real kernel"
IPT=${IPT:-iptables-legacy}
if ! unshare -n $IPT-save >/dev/null 2>&1; then echo "skipped (no netns/$IPT)"; exit 0; fi
export DRC IPT T
unshare -n bash -c '
cd $T
$IPT -t nat -A POSTROUTING -s 10.1.1.0/24 -o eth1 -j MASQUERADE
$IPT -t nat -A PREROUTING -i eth1 -p tcp --dport 8080 -j DNAT --to-destination 10.1.1.77:80
for round in 1 2 3; do
  $IPT-save > live$round
  $DRC -q live$round code/router > out$round
  echo "--- round $round: $(head -1 out$round)"
  [ -s out$round ] || { echo "converged"; exit 0; }
  sed -n "/^#!\/sbin\/iptables-restore/,\$p" out$round | $IPT-restore
done
echo "=> NOT converged after 3 approve rounds; nat rules still on device:"
$IPT-save -t nat | grep "^-A"
'
