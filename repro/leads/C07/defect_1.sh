#!/bin/bash
# C07 defect 1 (ASA): ACLs of an interface unknown to Netspoc are deleted.
#
# checkASAInterfaces/getImplicitInterfaces (go/pkg/cisco/diff.go) collects the
# access-group commands of an interface in a map interface -> commands, in order
# to mark the commands of unknown interfaces as needed (= leave untouched).
# But it
#  (a) only accepts access-group lines with exactly 5 words, so
#      "access-group X in interface dmz per-user-override" and
#      "access-group X in interface dmz control-plane" are not recorded, and
#  (b) overwrites the map entry instead of appending, so if an unknown
#      interface has an "in" AND an "out" ACL only the last one is protected.
# The unprotected access-group is then removed as "not in Netspoc" together
# with its ACL ("clear configure access-list ...").
# Property violated: ACLs of interfaces unknown to Netspoc must never be
# deleted or altered. (Expected output in both cases: only the warning.)
set -e
export GOFLAGS=-mod=mod GOPROXY=off GOSUMDB=off GOTOOLCHAIN=local
DRC=${DRC:-${BIN:-}}
D=$(mktemp -d)
if [ -z "$DRC" ]; then
  DRC=$D/drc; (cd /tmp/wt/C07b/go && go build -o $DRC ./cmd/drc)
fi
cd $D
cat > spoc <<'END'
access-list inside_in extended deny ip any4 any4
access-group inside_in in interface inside
END
echo '{"model":"ASA","name_list":["router"],"ip_list":["10.1.13.33"]}' > spoc.info
cat > common <<'END'
interface Ethernet0/0
 nameif inside
 ip address 10.1.1.1 255.255.255.0
interface Ethernet0/1
 nameif dmz
 ip address 10.1.2.1 255.255.255.0
access-list inside_in-DRC-0 extended deny ip any4 any4
access-group inside_in-DRC-0 in interface inside
END
echo "=== variant (b): unknown interface dmz has in and out ACL"
cat common - > dev_b <<'END'
access-list dmz_in extended permit ip any4 any4
access-list dmz_out extended permit tcp any4 any4 eq 80
access-group dmz_in in interface dmz
access-group dmz_out out interface dmz
END
$DRC -q dev_b spoc
echo "=== variant (a): access-group of unknown interface dmz has trailing option"
cat common - > dev_a <<'END'
access-list dmz_in extended permit ip any4 any4
access-group dmz_in in interface dmz per-user-override
access-list dmz_cp extended permit tcp any4 any4 eq 22
access-group dmz_cp in interface dmz control-plane
END
$DRC -q dev_a spoc
# Observed (unchanged code):
# (b) no access-group dmz_in in interface dmz
#     clear configure access-list dmz_in
# (a) no access-group dmz_in in interface dmz per-user-override
#     no access-group dmz_cp in interface dmz control-plane
#     clear configure access-list dmz_cp
#     clear configure access-list dmz_in
