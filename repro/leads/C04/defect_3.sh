#!/bin/bash
# Defect 3 (property C04, "no change is reported only when the manager is
# already equivalent" / services compared by their definitions):
# nsxServiceEntry.MarshalJSON() in go/pkg/nsx/parse.go knows only
# IPProtocolServiceEntry, L4PortSetServiceEntry and ICMPTypeServiceEntry.
# An entry of any other resource_type (ALGTypeServiceEntry, IGMPTypeServiceEntry,
# EtherTypeServiceEntry, NestedServiceServiceEntry ...), which a raw file may
# define (service "Netspoc-raw..." is accepted without complaint), is marshaled
# as JSON 'null'.  Services are compared via this JSON, so
#  (1) device ALG FTP/21 vs. target ALG TFTP/69: "no change" although the
#      definitions differ;
#  (2) on an empty manager the service is created as {"service_entries":[null]},
#      i.e. the definition of the target is never transferred.
set -e
export GOFLAGS=-mod=mod GOPROXY=off GOSUMDB=off GOTOOLCHAIN=local
T=$(mktemp -d)
DRC=${DRC:-${BIN:-}}
if [ -z "$DRC" ]; then
  DRC=$T/drc; (cd /tmp/wt/C04b/go && go build -o $DRC ./cmd/drc)
fi
cd $T
s() { echo "{\"id\":\"Netspoc-raw-alg\",\"service_entries\":[{\"id\":\"id\",\"resource_type\":\"ALGTypeServiceEntry\",\"alg\":\"$1\",\"destination_ports\":[\"$2\"]}]}"; }
r() { echo "{\"resource_type\":\"Rule\",\"id\":\"$1\",\"scope\":[\"/infra/tier-0s/v1\"],\"direction\":\"OUT\",\"ip_protocol\":\"IPV4\",\"sequence_number\":$2,\"action\":\"ALLOW\",\"source_groups\":[\"ANY\"],\"destination_groups\":[\"$3\"],\"services\":[\"$4\"]}"; }
c() { echo "{\"groups\":[],\"services\":[$1],\"policies\":[{\"id\":\"Netspoc-v1\",\"rules\":[$2]}]}"; }
R1=$(r r1 20 10.1.2.1 ANY)
RA=$(r a 15 10.1.2.9 /infra/services/Netspoc-raw-alg)
echo '{"model":"NSX","name_list":["router"],"ip_list":["10.1.13.33"]}' > router.info
c "" "$R1" > router
c "$(s TFTP 69)" "$RA" > router.raw
c "$(s FTP 21)" "$R1,$RA" > device
echo '{}' > empty
echo "=== (1) device: ALG FTP/21, target: ALG TFTP/69 (expected: PATCH of service; observed: nothing)"
$DRC -q device router
echo "=== (2) empty manager (observed: service_entries [null])"
$DRC -q empty router
echo "=== end"
rm -rf $T
