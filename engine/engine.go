package main

import (
	"go/constant"
	"strconv"
	"bufio"
	"path/filepath"
	"fmt"
	"go/token"
	"go/types"
	"os"
	"sort"
	"strings"

	"golang.org/x/tools/go/packages"
	"golang.org/x/tools/go/ssa"
	"golang.org/x/tools/go/ssa/ssautil"
)

type Engine struct {
	prog   *ssa.Program
	pkgs   []*ssa.Package
	tpkgs  map[string]*types.Package
	fset   *token.FileSet
	u      *Universe
	cs     *Contracts
	repoGo string

	allFuncs   []*ssa.Function // repository functions incl. anonymous
	funcByKey  map[string]*ssa.Function
	modsets    map[*ssa.Function]map[string]int
	panics     map[*ssa.Function]bool
	callees    map[*ssa.Function][]*ssa.Function
	addrTaken  map[*ssa.Function]bool
	cellClos   map[*FT]map[string]*Closure
	usedExternals map[string]string
	ghostTypes map[string]types.Type
	freshScope map[*ssa.BasicBlock]bool // while computing a loop's write set: the loop body
	nilSafeRecv map[string]bool
	srcCache   map[string][]string
	cerrors    []string
	cerrClauses []clauseError
	safetyMode bool
	safetyScope func(*ssa.Function) bool
	implCache  map[string][]*ssa.Function
	specInProgress map[string]bool
	paramCalls map[*ssa.Function]map[int]bool // function-typed parameters that are called
	ifaceImplCache map[*ssa.Function]bool
	deferReach map[*ssa.Function]bool
	curProp string
	nilableElems map[string]bool // element types excluded from the non-nil container invariant
	relCache map[string]map[*ssa.Function]bool
}

const (
	modFresh = 1
	modAny   = 2
)

func loadEngine(repoGo, specDir string) (*Engine, error) {
	cfg := &packages.Config{Mode: packages.LoadAllSyntax, Dir: repoGo, BuildFlags: []string{"-tags=verif"},
		Env: append(os.Environ(), "GOFLAGS=-mod=mod", "GOPROXY=off", "GOSUMDB=off", "GOTOOLCHAIN=local")}
	pkgs, err := packages.Load(cfg, "./...")
	if err != nil {
		return nil, err
	}
	nerr := 0
	packages.Visit(pkgs, nil, func(p *packages.Package) {
		for _, e := range p.Errors {
			fmt.Fprintln(os.Stderr, "load error:", e)
			nerr++
		}
	})
	if nerr > 0 {
		return nil, fmt.Errorf("%d package load errors", nerr)
	}
	prog, spkgs := ssautil.AllPackages(pkgs, ssa.InstantiateGenerics|ssa.GlobalDebug)
	prog.Build()
	e := &Engine{prog: prog, fset: prog.Fset, u: newUniverse(), repoGo: repoGo,
		tpkgs: map[string]*types.Package{}, funcByKey: map[string]*ssa.Function{},
		modsets: map[*ssa.Function]map[string]int{}, panics: map[*ssa.Function]bool{},
		callees: map[*ssa.Function][]*ssa.Function{}, addrTaken: map[*ssa.Function]bool{},
		cellClos: map[*FT]map[string]*Closure{}, usedExternals: map[string]string{},
		ghostTypes: map[string]types.Type{}, srcCache: map[string][]string{}, implCache: map[string][]*ssa.Function{},
		nilSafeRecv: map[string]bool{}, nilableElems: map[string]bool{}, specInProgress: map[string]bool{}, paramCalls: map[*ssa.Function]map[int]bool{}}
	for _, p := range spkgs {
		if p == nil || !strings.HasPrefix(p.Pkg.Path(), repoPkgPrefix) {
			continue
		}
		if strings.Contains(p.Pkg.Path(), "/go/test/") {
			continue
		}
		e.pkgs = append(e.pkgs, p)
		e.tpkgs[p.Pkg.Path()] = p.Pkg
	}
	sort.Slice(e.pkgs, func(i, j int) bool { return e.pkgs[i].Pkg.Path() < e.pkgs[j].Pkg.Path() })
	all := ssautil.AllFunctions(prog)
	for f := range all {
		if e.inRepo(f) && f.Blocks != nil {
			e.allFuncs = append(e.allFuncs, f)
		}
	}
	sort.Slice(e.allFuncs, func(i, j int) bool { return e.allFuncs[i].String() < e.allFuncs[j].String() })
	for _, f := range e.allFuncs {
		e.funcByKey[e.funcKey(f)] = f
	}
	e.u.heap(allocHeap, arraySort(SRef, SBool))
	e.u.heap(panickingHeap, SBool)
	e.u.heap(escHeap, arraySort(SRef, SBool))
	e.u.heap(panicvalHeap, SRef)
	e.cs = loadContracts(repoGo, specDir)
	e.cerrors = append(e.cerrors, e.cs.Errors...)
	// a contract block of the repository whose function no longer exists (a
	// closure folded into its parent, a renamed helper): its clauses are
	// reported as unbound instead of vanishing with the function
	{
		var keys []string
		for k := range e.cs.Funcs {
			keys = append(keys, k)
		}
		sort.Strings(keys)
		for _, k := range keys {
			fc := e.cs.Funcs[k]
			if fc.Pkg == "" || fc.Ext {
				continue
			}
			if _, ok := e.funcByKey[k]; ok {
				continue
			}
			// functions without body in the loaded program (interfaces, other build tags) are not in funcByKey either
			for _, l := range [][]*Clause{fc.Requires, fc.Ensures, fc.XEnsures, fc.Invs, fc.Decr, fc.Asserts} {
				for _, c := range l {
					if c.Hypothesis || c.Kind == "assume" || c.Kind == "assign" {
						continue
					}
					e.contractError(c, fmt.Errorf("function %s no longer exists", k))
				}
			}
		}
	}
	e.declareGhosts()
	e.declareAxioms()
	e.computeEffects()
	return e, nil
}

func (e *Engine) pkgOf(f *ssa.Function) *ssa.Package {
	for p := f; p != nil; p = p.Parent() {
		if p.Pkg != nil {
			return p.Pkg
		}
	}
	if f.Origin() != nil {
		return e.pkgOf(f.Origin())
	}
	// methods of instantiated/wrapper: use receiver's package
	if f.Signature.Recv() != nil {
		if n, ok := derefNamed(f.Signature.Recv().Type()); ok && n.Obj().Pkg() != nil {
			return e.prog.Package(n.Obj().Pkg())
		}
	}
	return nil
}

func (e *Engine) inRepo(f *ssa.Function) bool {
	p := e.pkgOf(f)
	return p != nil && strings.HasPrefix(p.Pkg.Path(), repoPkgPrefix) && !strings.Contains(p.Pkg.Path(), "/go/test/")
}

func (e *Engine) funcKey(f *ssa.Function) string {
	p := e.pkgOf(f)
	if p == nil {
		return f.String()
	}
	g := f
	if f.Origin() != nil {
		g = f.Origin()
	}
	name := g.RelString(p.Pkg)
	// anonymous functions inside generic instances keep the instance name: strip type args
	if i := strings.Index(name, "["); i >= 0 {
		if j := strings.Index(name, "]"); j > i {
			name = name[:i] + name[j+1:]
		}
	}
	return p.Pkg.Path() + "::" + name
}

func (e *Engine) extName(f *ssa.Function) string {
	g := f
	if f.Origin() != nil {
		g = f.Origin()
	}
	return g.String()
}

func (e *Engine) contractOf(f *ssa.Function) *FuncContract {
	if f == nil {
		return nil
	}
	if e.inRepo(f) {
		return e.cs.Funcs[e.funcKey(f)]
	}
	if fc, ok := e.cs.Funcs[f.String()]; ok {
		return fc
	}
	return e.cs.Funcs[e.extName(f)]
}

func (e *Engine) ifaceContract(c *ssa.CallCommon) *FuncContract {
	t := c.Value.Type()
	if n, ok := t.(*types.Named); ok && n.Obj().Pkg() != nil {
		key := n.Obj().Pkg().Path() + "::" + n.Obj().Name() + "." + c.Method.Name()
		if fc, ok := e.cs.Funcs[key]; ok {
			return fc
		}
		// external interface
		if fc, ok := e.cs.Funcs[n.Obj().Pkg().Path()+"."+n.Obj().Name()+"."+c.Method.Name()]; ok {
			return fc
		}
	}
	// embedded interface method: look up by method's declaring interface
	if recv := c.Method.Type().(*types.Signature).Recv(); recv != nil {
		if n, ok := recv.Type().(*types.Named); ok && n.Obj().Pkg() != nil {
			key := n.Obj().Pkg().Path() + "::" + n.Obj().Name() + "." + c.Method.Name()
			if fc, ok := e.cs.Funcs[key]; ok {
				return fc
			}
		}
	}
	return nil
}

// implementations of an interface method among repository types
func (e *Engine) implementations(c *ssa.CallCommon) []*ssa.Function {
	it, ok := c.Value.Type().Underlying().(*types.Interface)
	if !ok {
		return nil
	}
	key := types.TypeString(c.Value.Type(), nil) + "." + c.Method.Name()
	if r, ok := e.implCache[key]; ok {
		return r
	}
	var out []*ssa.Function
	for _, p := range e.pkgs {
		for _, m := range p.Members {
			tn, ok := m.(*ssa.Type)
			if !ok {
				continue
			}
			for _, t := range []types.Type{tn.Type(), types.NewPointer(tn.Type())} {
				if _, isIface := t.Underlying().(*types.Interface); isIface {
					continue
				}
				if types.Implements(t, it) {
					ms := e.prog.MethodSets.MethodSet(t)
					if sel := ms.Lookup(c.Method.Pkg(), c.Method.Name()); sel != nil {
						if f := e.prog.MethodValue(sel); f != nil {
							out = append(out, f)
						}
					}
					break
				}
			}
		}
	}
	e.implCache[key] = out
	return out
}

func (e *Engine) typesPkg(path string) *types.Package { return e.tpkgs[path] }

func (e *Engine) specPkg(sf *SpecFunc) *types.Package {
	// spec functions declared in a repo contract file resolve types in that package
	for path, p := range e.tpkgs {
		rel := strings.TrimPrefix(path, repoPkgPrefix)
		if strings.Contains(sf.File, "/"+rel+"/zz_contracts_verif.go") {
			return p
		}
	}
	return nil
}

func (e *Engine) declareGhosts() {
	env := &SpecEnv{ft: &FT{e: e}}
	for _, name := range sortedKeys(e.cs.Ghosts) {
		g := e.cs.Ghosts[name]
		// resolve in the package of the declaring file
		env.pkg = nil
		for path, p := range e.tpkgs {
			rel := strings.TrimPrefix(path, repoPkgPrefix)
			if strings.Contains(g.File, "/"+rel+"/zz_contracts_verif.go") {
				env.pkg = p
			}
		}
		s, err := env.resolveSpecSort(g.Type)
		if err != nil {
			e.cerrors = append(e.cerrors, fmt.Sprintf("ghost %s: %v", name, err))
			continue
		}
		e.u.heap(e.ghostHeap(name), s)
		if t, err := env.resolveType(g.Type); err == nil {
			e.ghostTypes[name] = t
		}
	}
}

func (e *Engine) contractError(c *Clause, err error) {
	msg := fmt.Sprintf("%s:%d: %s: %v", c.File, c.Line, c.Kind, err)
	for _, m := range e.cerrors {
		if m == msg {
			return
		}
	}
	e.cerrors = append(e.cerrors, msg)
	e.cerrClauses = append(e.cerrClauses, clauseError{c, msg})
}

// clauseError: a contract clause that does not bind to the current source
// (a name, statement or loop it refers to no longer exists).
type clauseError struct {
	c   *Clause
	msg string
}

func (e *Engine) lines(file string) []string {
	if l, ok := e.srcCache[file]; ok {
		return l
	}
	var out []string
	fh, err := os.Open(file)
	if err == nil {
		sc := bufio.NewScanner(fh)
		sc.Buffer(make([]byte, 1<<20), 1<<20)
		for sc.Scan() {
			out = append(out, sc.Text())
		}
		fh.Close()
	}
	e.srcCache[file] = out
	return out
}

func (e *Engine) sourceLine(pos token.Pos) string {
	if !pos.IsValid() {
		return ""
	}
	p := e.fset.Position(pos)
	l := e.lines(p.Filename)
	if p.Line-1 < len(l) {
		return strings.TrimSpace(l[p.Line-1])
	}
	return ""
}

func (e *Engine) lineText(pos token.Pos) string {
	s := e.sourceLine(pos)
	if len(s) > 120 {
		s = s[:120]
	}
	return s
}

func (e *Engine) wantSafety(fr *frame) bool {
	return e.safetyMode && fr.depth == 0 && !fr.inExc
}

const maxInlineSize = 150

// noInline: large callees are not inlined; their effects are over-approximated
// by the inferred write set (they are verified on their own where relevant).
func (e *Engine) noInline(f *ssa.Function) bool {
	if f.Synthetic != "" {
		return false
	}
	if fc := e.contractOf(f); fc != nil && fc.Inline {
		return false
	}
	n := 0
	for _, b := range f.Blocks {
		for _, ins := range b.Instrs {
			if _, ok := ins.(*ssa.DebugRef); !ok {
				n++
			}
		}
	}
	return n > maxInlineSize
}

var purePkgs = map[string]bool{"strings": true, "strconv": true, "errors": true, "path": true, "path/filepath": true,
	"unicode": true, "unicode/utf8": true, "net/netip": true, "bytes": true, "cmp": true, "regexp": true, "net/url": true,
	"math": true, "slices": true, "maps": true, "sort": false, "fmt": false, "net": true}

var impureFuncs = map[string]bool{"path/filepath.EvalSymlinks": true, "path/filepath.WalkDir": true, "path/filepath.Glob": true,
	"slices.Sort": true, "slices.SortFunc": true, "slices.SortStableFunc": true, "slices.Reverse": true,
	"net.Dial": true, "net.LookupIP": true, "net.LookupHost": true}

var pureFuncs = map[string]bool{"fmt.Sprintf": true, "fmt.Sprint": true, "fmt.Errorf": true, "fmt.Sprintln": true,
	"(*regexp.Regexp).String": true, "(error).Error": true, "sort.SearchStrings": true}

func (e *Engine) knownPure(name string) bool {
	if pureFuncs[name] {
		return true
	}
	if impureFuncs[name] {
		return false
	}
	n := name
	if strings.HasPrefix(n, "(") {
		// method: (*pkg.T).m or (pkg.T).m
		n = strings.TrimLeft(n, "(*")
	}
	i := strings.LastIndex(n, ".")
	if i < 0 {
		return false
	}
	pkg := n[:i]
	if j := strings.Index(pkg, ")"); j >= 0 {
		pkg = pkg[:j]
	}
	// strip type name for methods
	if strings.HasPrefix(name, "(") {
		if k := strings.LastIndex(pkg, "."); k >= 0 {
			pkg = pkg[:k]
		}
	}
	return purePkgs[pkg]
}

func (e *Engine) pureResultSortN(name string, k int) (Sort, bool) {
	i := strings.LastIndex(name, ".")
	if i < 0 {
		return "", false
	}
	pkgPath, fn := name[:i], name[i+1:]
	for _, p := range e.prog.AllPackages() {
		if p.Pkg.Path() == pkgPath {
			if f := p.Func(fn); f != nil && f.Signature.Results().Len() > k {
				return e.u.sortOf(f.Signature.Results().At(k).Type()), true
			}
		}
	}
	return "", false
}

func (e *Engine) pureResultSort(name string) (Sort, bool) {
	// find the function object to determine result sort
	i := strings.LastIndex(name, ".")
	if i < 0 {
		return "", false
	}
	pkgPath, fn := name[:i], name[i+1:]
	for _, p := range e.prog.AllPackages() {
		if p.Pkg.Path() == pkgPath {
			if f := p.Func(fn); f != nil && f.Signature.Results().Len() > 0 {
				return e.u.sortOf(f.Signature.Results().At(0).Type()), true
			}
		}
	}
	return "", false
}

// heaps an external callee may write through an argument of type t
func (e *Engine) writableThrough(t types.Type, ms map[string]bool, depth int) {
	if depth > 2 {
		return
	}
	switch tt := t.Underlying().(type) {
	case *types.Slice:
		h, _ := e.u.elemHeap(tt.Elem())
		ms[h] = true
		e.writableThrough(tt.Elem(), ms, depth+1)
	case *types.Pointer:
		if isStruct(tt.Elem()) {
			repo := false
			if n, ok := tt.Elem().(*types.Named); ok {
				repo = n.Obj().Pkg() != nil && strings.HasPrefix(n.Obj().Pkg().Path(), repoPkgPrefix)
			} else {
				repo = true // anonymous struct declared in repository code
			}
			if repo {
				hs := map[string]bool{}
				e.u.structHeaps(tt.Elem(), hs)
				for h := range hs {
					ms[h] = true
				}
				// objects reachable through pointer / slice fields
				st := tt.Elem().Underlying().(*types.Struct)
				for i := 0; i < st.NumFields(); i++ {
					switch ft := st.Field(i).Type().Underlying().(type) {
					case *types.Pointer, *types.Slice, *types.Map:
						e.writableThrough(ft, ms, depth+1)
					}
				}
			}
		} else {
			h, _ := e.u.cellHeap(tt.Elem())
			ms[h] = true
			e.writableThrough(tt.Elem(), ms, depth+1)
		}
	case *types.Map:
		d, v, _, _ := e.u.mapHeaps(tt)
		ms[d] = true
		ms[v] = true
	}
}

// actualArgType: the static type of an argument before conversion to an interface
func actualArgType(v ssa.Value) types.Type {
	if mi, ok := v.(*ssa.MakeInterface); ok {
		return mi.X.Type()
	}
	return v.Type()
}

// ---------------------------------------------------------------------------
// effect inference: written heaps (at type/field granularity) and may-panic

func (e *Engine) addrRootFresh(v ssa.Value) bool {
	for {
		switch x := v.(type) {
		case *ssa.FieldAddr:
			v = x.X
		case *ssa.IndexAddr:
			v = x.X
		case *ssa.Alloc, *ssa.MakeMap, *ssa.MakeSlice:
			// inside a loop "fresh" means allocated by the loop body itself
			return e.freshScope == nil || e.freshScope[x.(ssa.Instruction).Block()]
		case *ssa.Slice:
			v = x.X
		case *ssa.Call:
			if b, ok := x.Call.Value.(*ssa.Builtin); ok && b.Name() == "append" {
				return e.freshScope == nil || e.freshScope[x.Block()]
			}
			return false
		default:
			return false
		}
	}
}

func (e *Engine) addrHeaps(addr ssa.Value, stored types.Type, out map[string]int) {
	u := e.u
	level := modAny
	if e.addrRootFresh(addr) {
		level = modFresh
	}
	add := func(h string) {
		if out[h] < level {
			out[h] = level
		}
	}
	addStruct := func(t types.Type) {
		hs := map[string]bool{}
		u.structHeaps(t, hs)
		for h := range hs {
			add(h)
		}
	}
	switch a := addr.(type) {
	case *ssa.FieldAddr:
		// root of the chain
		root := ssa.Value(a)
		for {
			if fa, ok := root.(*ssa.FieldAddr); ok {
				root = fa.X
				continue
			}
			break
		}
		if ia, ok := root.(*ssa.IndexAddr); ok {
			e.addrHeaps(ia, nil, out)
			return
		}
		st := a.X.Type().Underlying().(*types.Pointer).Elem()
		ft := st.Underlying().(*types.Struct).Field(a.Field).Type()
		if isStruct(ft) {
			addStruct(ft)
		} else {
			h, _ := u.fieldHeap(st, a.Field)
			add(h)
		}
	case *ssa.IndexAddr:
		switch xt := a.X.Type().Underlying().(type) {
		case *types.Slice:
			h, _ := u.elemHeap(xt.Elem())
			add(h)
		case *types.Pointer:
			h, _ := u.elemHeap(xt.Elem().Underlying().(*types.Array).Elem())
			add(h)
		}
	case *ssa.Global:
		pkg := ""
		if a.Pkg != nil {
			pkg = a.Pkg.Pkg.Path()
		}
		h, _ := u.globalHeap(pkg, a.Name(), a.Type().(*types.Pointer).Elem())
		add(h)
	default:
		pt, ok := addr.Type().Underlying().(*types.Pointer)
		if !ok {
			return
		}
		switch et := pt.Elem().Underlying().(type) {
		case *types.Struct:
			addStruct(pt.Elem())
		case *types.Array:
			h, _ := u.elemHeap(et.Elem())
			add(h)
		default:
			h, _ := u.cellHeap(pt.Elem())
			add(h)
		}
	}
}

func (e *Engine) instrWritesLevel(ins ssa.Instruction, out map[string]int) {
	u := e.u
	add := func(h string, l int) {
		if out[h] < l {
			out[h] = l
		}
	}
	switch t := ins.(type) {
	case *ssa.Store:
		e.addrHeaps(t.Addr, t.Val.Type(), out)
	case *ssa.MapUpdate:
		d, v, _, _ := u.mapHeaps(t.Map.Type().Underlying().(*types.Map))
		l := modAny
		if e.addrRootFresh(t.Map) {
			l = modFresh
		}
		add(d, l)
		add(v, l)
	case *ssa.Alloc:
		add(allocHeap, modFresh)
		elem := t.Type().(*types.Pointer).Elem()
		switch et := elem.Underlying().(type) {
		case *types.Struct:
			hs := map[string]bool{}
			u.structHeaps(elem, hs)
			for h := range hs {
				add(h, modFresh)
			}
		case *types.Array:
			h, _ := u.elemHeap(et.Elem())
			add(h, modFresh)
		default:
			h, _ := u.cellHeap(elem)
			add(h, modFresh)
		}
	case *ssa.Next:
		if rng, ok := t.Iter.(*ssa.Range); ok {
			if mt, ok := rng.X.Type().Underlying().(*types.Map); ok {
				_, _, ks, _ := u.mapHeaps(mt)
				name := fmt.Sprintf("V$%s$%d", sanitize(rng.Parent().Name()), rng.Pos())
				u.heap(name, arraySort(ks, SBool))
				add(name, modAny)
			}
		}
	case *ssa.MakeMap:
		add(allocHeap, modFresh)
		d, _, _, _ := u.mapHeaps(t.Type().Underlying().(*types.Map))
		add(d, modFresh)
	case *ssa.MakeSlice:
		add(allocHeap, modFresh)
		h, _ := u.elemHeap(t.Type().Underlying().(*types.Slice).Elem())
		add(h, modFresh)
	case *ssa.MakeClosure:
		add(allocHeap, modFresh)
	case *ssa.Convert:
		if st, ok := t.Type().Underlying().(*types.Slice); ok {
			if _, isStr := t.X.Type().Underlying().(*types.Basic); isStr {
				add(allocHeap, modFresh)
				h, _ := u.elemHeap(st.Elem())
				add(h, modFresh)
			}
		}
	case ssa.CallInstruction:
		c := t.Common()
		if b, ok := c.Value.(*ssa.Builtin); ok && !c.IsInvoke() {
			switch b.Name() {
			case "append":
				add(allocHeap, modFresh)
				h, _ := u.elemHeap(c.Args[0].Type().Underlying().(*types.Slice).Elem())
				add(h, modFresh)
			case "copy":
				h, _ := u.elemHeap(c.Args[0].Type().Underlying().(*types.Slice).Elem())
				l := modAny
				if e.addrRootFresh(c.Args[0]) {
					l = modFresh
				}
				add(h, l)
			case "delete", "clear":
				if mt, ok := c.Args[0].Type().Underlying().(*types.Map); ok {
					d, _, _, _ := u.mapHeaps(mt)
					add(d, modAny)
				}
			case "recover":
				add(panickingHeap, modAny)
			}
			return
		}
		for _, f := range e.possibleCallees(c) {
			for h, l := range e.calleeEffects(f, c) {
				add(h, l)
			}
		}
		if len(e.possibleCallees(c)) == 0 && !c.IsInvoke() && c.StaticCallee() == nil {
			// call of a function-typed parameter: effects are those of the
			// actual argument, resolved at the call sites of this function
			if prm, ok := c.Value.(*ssa.Parameter); ok {
				fn := prm.Parent()
				for i, q := range fn.Params {
					if q == prm {
						if e.paramCalls[fn] == nil {
							e.paramCalls[fn] = map[int]bool{}
						}
						e.paramCalls[fn][i] = true
					}
				}
				return
			}
			// dynamic call of unknown function value
			ms, _ := e.dynamicCallEffects(c.Signature())
			for h := range ms {
				add(h, modAny)
			}
		}
	}
}

// argument function effects: for callee parameters that are called, add the
// effects of the actual function argument (or all candidates if unknown)
func (e *Engine) argFuncEffects(f *ssa.Function, c *ssa.CallCommon, out map[string]int) {
	pc := e.paramCalls[f]
	if len(pc) == 0 {
		return
	}
	for i := range pc {
		var known *ssa.Function
		if c != nil {
			args := c.Args
			idx := i
			if c.IsInvoke() {
				idx = i - 1
			}
			if idx >= 0 && idx < len(args) {
				switch a := args[idx].(type) {
				case *ssa.MakeClosure:
					known = a.Fn.(*ssa.Function)
				case *ssa.Function:
					known = a
				}
			}
		}
		if known != nil {
			for h, l := range e.modsets[known] {
				if out[h] < l {
					out[h] = l
				}
			}
			e.argFuncEffects(known, nil, out)
			continue
		}
		if i < len(f.Params) {
			if sig, ok := f.Params[i].Type().Underlying().(*types.Signature); ok {
				ms, _ := e.dynamicCallEffects(sig)
				for h := range ms {
					out[h] = modAny
				}
			}
		}
	}
}

// instrWrites (bool flavour) for loops
func (e *Engine) instrWrites(ins ssa.Instruction, out map[string]bool) {
	m := map[string]int{}
	e.instrWritesLevel(ins, m)
	for h := range m {
		out[h] = true
	}
	// closures created in a loop body may be called there: include their effects
	if mc, ok := ins.(*ssa.MakeClosure); ok {
		for h := range e.modsets[mc.Fn.(*ssa.Function)] {
			out[h] = true
		}
	}
}

func (e *Engine) possibleCallees(c *ssa.CallCommon) []*ssa.Function {
	if c.IsInvoke() {
		return e.implementations(c)
	}
	if f := c.StaticCallee(); f != nil {
		return []*ssa.Function{f}
	}
	// call through a local function variable (e.g. a recursive closure
	// "var f func(); f = func(){...}"): the closures stored in that cell
	if u, ok := c.Value.(*ssa.UnOp); ok {
		if fs := e.cellClosures(u.X, 0); fs != nil {
			return fs
		}
	}
	return nil
}

// cellClosures: all closures stored into the variable cell v, if every store is a closure literal
func (e *Engine) cellClosures(v ssa.Value, depth int) []*ssa.Function {
	if depth > 3 {
		return nil
	}
	switch x := v.(type) {
	case *ssa.Alloc:
		var out []*ssa.Function
		for _, ref := range *x.Referrers() {
			switch r := ref.(type) {
			case *ssa.Store:
				if r.Addr != ssa.Value(x) {
					return nil // address escapes as a value
				}
				switch val := r.Val.(type) {
				case *ssa.MakeClosure:
					out = append(out, val.Fn.(*ssa.Function))
				case *ssa.Function:
					out = append(out, val)
				case *ssa.Const:
					// nil initialisation
				default:
					return nil
				}
			case *ssa.UnOp, *ssa.DebugRef, *ssa.MakeClosure:
			default:
				return nil
			}
		}
		return out
	case *ssa.FreeVar:
		fn := x.Parent()
		parent := fn.Parent()
		if parent == nil {
			return nil
		}
		idx := -1
		for i, fv := range fn.FreeVars {
			if fv == x {
				idx = i
			}
		}
		for _, b := range parent.Blocks {
			for _, ins := range b.Instrs {
				if m, ok := ins.(*ssa.MakeClosure); ok && m.Fn == ssa.Value(fn) && idx >= 0 && idx < len(m.Bindings) {
					return e.cellClosures(m.Bindings[idx], depth+1)
				}
			}
		}
	}
	return nil
}

// effects of calling f as seen by a caller (declared modifies override inference)
func (e *Engine) calleeEffects(f *ssa.Function, c *ssa.CallCommon) map[string]int {
	fc := e.contractOf(f)
	if fc != nil && (fc.HasMod || len(fc.Updates) > 0 || len(fc.Inits) > 0 || f.Blocks == nil || !e.inRepo(f)) {
		out := map[string]int{}
		for h := range e.resolveModifies(fc, f) {
			out[h] = modAny
		}
		for _, u := range fc.Updates {
			out[e.ghostHeap(u.Label)] = modAny
		}
		for _, u := range fc.Inits {
			out[e.ghostHeap(u.Label)] = modAny
		}
		if fc.HasMod || f.Blocks == nil || !e.inRepo(f) {
			return out
		}
		for h, l := range e.modsets[f] {
			if out[h] < l {
				out[h] = l
			}
		}
		return out
	}
	if f.Blocks != nil && e.inRepo(f) && len(e.paramCalls[f]) > 0 && (fc == nil || !fc.HasMod) {
		out := map[string]int{}
		for h, l := range e.modsets[f] {
			out[h] = l
		}
		if fc != nil {
			for _, u := range fc.Updates {
				out[e.ghostHeap(u.Label)] = modAny
			}
		}
		e.argFuncEffects(f, c, out)
		return out
	}
	if f.Blocks == nil || !e.inRepo(f) {
		// external without contract
		out := map[string]int{}
		if !e.knownPure(e.extName(f)) && c != nil {
			ms := map[string]bool{}
			for _, a := range c.Args {
				e.writableThrough(actualArgType(a), ms, 0)
			}
			for h := range ms {
				out[h] = modAny
			}
		}
		return out
	}
	return e.modsets[f]
}

func (e *Engine) modSet(f *ssa.Function) map[string]bool {
	out := map[string]bool{}
	for h := range e.calleeEffects(f, nil) {
		out[h] = true
	}
	return out
}

func (e *Engine) modSetLevels(f *ssa.Function) map[string]int {
	return e.calleeEffects(f, nil)
}

func (e *Engine) mayPanic(f *ssa.Function) bool {
	if fc := e.contractOf(f); fc != nil && fc.MayPanic != nil {
		return *fc.MayPanic
	}
	return e.panics[f]
}

func (e *Engine) contractMayPanic(fc *FuncContract, f *ssa.Function) bool {
	if fc.MayPanic != nil {
		return *fc.MayPanic
	}
	if f != nil {
		return e.panics[f]
	}
	return len(fc.XEnsures) > 0
}

func (e *Engine) dynamicCallEffects(sig *types.Signature) (map[string]bool, bool) {
	ms := map[string]bool{}
	mp := false
	for f := range e.addrTaken {
		if types.Identical(f.Signature, sig) || sameParams(f.Signature, sig) {
			for h := range e.modsets[f] {
				ms[h] = true
			}
			if e.panics[f] {
				mp = true
			}
		}
	}
	return ms, mp
}

func sameParams(a, b *types.Signature) bool {
	if a.Params().Len() != b.Params().Len() || a.Results().Len() != b.Results().Len() {
		return false
	}
	for i := 0; i < a.Params().Len(); i++ {
		if !types.Identical(a.Params().At(i).Type(), b.Params().At(i).Type()) {
			return false
		}
	}
	for i := 0; i < a.Results().Len(); i++ {
		if !types.Identical(a.Results().At(i).Type(), b.Results().At(i).Type()) {
			return false
		}
	}
	return true
}

func (e *Engine) computeEffects() {
	// address-taken functions: closures and function values used as operands
	for _, f := range e.allFuncs {
		for _, b := range f.Blocks {
			for _, ins := range b.Instrs {
				if mc, ok := ins.(*ssa.MakeClosure); ok {
					// a closure that is only called directly (func(){...}() or a local
					// variable that is only called) does not escape
					escapes := false
					for _, ref := range *mc.Referrers() {
						switch r := ref.(type) {
						case *ssa.DebugRef:
						case ssa.CallInstruction:
							if r.Common().Value != ssa.Value(mc) {
								escapes = true
							}
						default:
							escapes = true
						}
					}
					if escapes {
						e.addrTaken[mc.Fn.(*ssa.Function)] = true
					}
				}
				if _, ok := ins.(*ssa.DebugRef); ok {
					continue
				}
				if _, ok := ins.(*ssa.MakeClosure); ok {
					continue
				}
				for _, op := range ins.Operands(nil) {
					if g, ok := (*op).(*ssa.Function); ok {
						if ci, isCall := ins.(ssa.CallInstruction); isCall && ci.Common().Value == g {
							continue
						}
						e.addrTaken[g] = true
					}
				}
			}
		}
	}
	for _, f := range e.allFuncs {
		e.modsets[f] = map[string]int{}
	}
	// direct panics
	for _, f := range e.allFuncs {
		for _, b := range f.Blocks {
			for _, ins := range b.Instrs {
				if _, ok := ins.(*ssa.Panic); ok {
					e.panics[f] = true
				}
			}
		}
	}
	changed := true
	for iter := 0; changed && iter < 50; iter++ {
		changed = false
		for _, f := range e.allFuncs {
			ms := e.modsets[f]
			before := len(ms)
			sum := 0
			for _, l := range ms {
				sum += l
			}
			for _, b := range f.Blocks {
				for _, ins := range b.Instrs {
					e.instrWritesLevel(ins, ms)
					if ci, ok := ins.(ssa.CallInstruction); ok && !e.panics[f] {
						c := ci.Common()
						for _, g := range e.possibleCallees(c) {
							if e.mayPanic(g) {
								e.panics[f] = true
								changed = true
							}
						}
						if len(e.possibleCallees(c)) == 0 && !c.IsInvoke() {
							if _, isB := c.Value.(*ssa.Builtin); !isB && c.StaticCallee() == nil {
								if _, mp := e.dynamicCallEffects(c.Signature()); mp {
									e.panics[f] = true
									changed = true
								}
							}
						}
					}
					// closures made here may be invoked by callees: include
					if mc, ok := ins.(*ssa.MakeClosure); ok {
						g := mc.Fn.(*ssa.Function)
						for h, l := range e.modsets[g] {
							// writes of the closure to cells captured from f are still writes
							if ms[h] < l {
								ms[h] = l
							}
						}
						if e.panics[g] && !e.panics[f] {
							e.panics[f] = true
							changed = true
						}
					}
				}
			}
			after := 0
			for _, l := range ms {
				after += l
			}
			if len(ms) != before || after != sum {
				changed = true
			}
		}
	}
}

// resolveModifies: declared modifies clause -> heap names
func (e *Engine) resolveModifies(fc *FuncContract, callee *ssa.Function) map[string]bool {
	out := map[string]bool{}
	var pkg *types.Package
	if fc.Pkg != "" {
		pkg = e.tpkgs[fc.Pkg]
	}
	for _, m := range fc.Modifies {
		switch {
		case m == "*":
			for h := range e.u.heaps {
				out[h] = true
			}
		case m == "alloc":
			out[allocHeap] = true
		case strings.HasPrefix(m, "ghost "):
			out[e.ghostHeap(strings.TrimSpace(m[6:]))] = true
		case e.cs.Ghosts[m] != nil:
			out[e.ghostHeap(m)] = true
		case strings.HasPrefix(m, "elems(") || strings.HasPrefix(m, "cells(") || strings.HasPrefix(m, "map("):
			env := &SpecEnv{ft: &FT{e: e}, pkg: pkg}
			inner := m[strings.Index(m, "(")+1 : len(m)-1]
			t, err := env.resolveType(inner)
			if err != nil {
				e.cerrors = append(e.cerrors, fmt.Sprintf("%s: modifies %s: %v", fc.Name, m, err))
				continue
			}
			switch {
			case strings.HasPrefix(m, "elems("):
				h, _ := e.u.elemHeap(t)
				out[h] = true
			case strings.HasPrefix(m, "cells("):
				h, _ := e.u.cellHeap(t)
				out[h] = true
			default:
				if mt, ok := t.Underlying().(*types.Map); ok {
					d, v, _, _ := e.u.mapHeaps(mt)
					out[d] = true
					out[v] = true
				}
			}
		case strings.Contains(m, "."):
			// Type.field
			i := strings.LastIndex(m, ".")
			env := &SpecEnv{ft: &FT{e: e}, pkg: pkg}
			t, err := env.resolveType(m[:i])
			if err != nil {
				e.cerrors = append(e.cerrors, fmt.Sprintf("%s: modifies %s: %v", fc.Name, m, err))
				continue
			}
			st, ok := t.Underlying().(*types.Struct)
			if !ok {
				e.cerrors = append(e.cerrors, fmt.Sprintf("%s: modifies %s: not a struct", fc.Name, m))
				continue
			}
			found := false
			for k := 0; k < st.NumFields(); k++ {
				if st.Field(k).Name() == m[i+1:] {
					found = true
					if isStruct(st.Field(k).Type()) {
						hs := map[string]bool{}
						e.u.structHeaps(st.Field(k).Type(), hs)
						for h := range hs {
							out[h] = true
						}
					} else {
						h, _ := e.u.fieldHeap(t, k)
						out[h] = true
					}
				}
			}
			if !found {
				e.cerrors = append(e.cerrors, fmt.Sprintf("%s: modifies %s: no such field", fc.Name, m))
			}
		default:
			// package level variable
			if pkg != nil {
				if v, ok := pkg.Scope().Lookup(m).(*types.Var); ok {
					h, _ := e.u.globalHeap(pkg.Path(), m, v.Type())
					out[h] = true
					continue
				}
			}
			e.cerrors = append(e.cerrors, fmt.Sprintf("%s: cannot resolve modifies %q", fc.Name, m))
		}
	}
	return out
}

// qualifiedType resolves "pkg.Name", "*pkg.Name", "[]pkg.Name" against all loaded packages.
func (e *Engine) qualifiedType(s string) (types.Type, bool) {
	switch {
	case strings.HasPrefix(s, "*"):
		if t, ok := e.qualifiedType(s[1:]); ok {
			return types.NewPointer(t), true
		}
		return nil, false
	case strings.HasPrefix(s, "[]"):
		if t, ok := e.qualifiedType(s[2:]); ok {
			return types.NewSlice(t), true
		}
		return nil, false
	}
	i := strings.LastIndex(s, ".")
	if i < 0 || strings.ContainsAny(s, "[]( ") {
		return nil, false
	}
	pkg, name := s[:i], s[i+1:]
	for _, p := range e.prog.AllPackages() {
		if p.Pkg.Path() == pkg || p.Pkg.Path() == repoPkgPrefix+"pkg/"+pkg || (!strings.Contains(pkg, "/") && p.Pkg.Name() == pkg && !strings.Contains(p.Pkg.Path(), "/internal/") && !strings.Contains(p.Pkg.Path(), "vendor/")) {
			if tn, ok := p.Pkg.Scope().Lookup(name).(*types.TypeName); ok {
				return tn.Type(), true
			}
		}
	}
	return nil, false
}

// implementingTypes: repository types (T or *T) implementing the interface,
// excluding structs that merely embed the interface.
func (e *Engine) implementingTypes(it types.Type) []types.Type {
	iface, ok := it.Underlying().(*types.Interface)
	if !ok {
		return nil
	}
	var out []types.Type
	for _, p := range e.pkgs {
		var names []string
		for n := range p.Members {
			names = append(names, n)
		}
		sort.Strings(names)
		for _, n := range names {
			tn, ok := p.Members[n].(*ssa.Type)
			if !ok {
				continue
			}
			if _, isIface := tn.Type().Underlying().(*types.Interface); isIface {
				continue
			}
			if st, ok := tn.Type().Underlying().(*types.Struct); ok {
				embeds := false
				for i := 0; i < st.NumFields(); i++ {
					if st.Field(i).Embedded() && types.Identical(st.Field(i).Type(), it) {
						embeds = true
					}
				}
				if embeds {
					continue
				}
			}
			for _, t := range []types.Type{tn.Type(), types.NewPointer(tn.Type())} {
				if types.Implements(t, iface) {
					out = append(out, t)
					break
				}
			}
		}
	}
	return out
}

// scanObligations: "only CALLEE in F1, F2" rules.
func (e *Engine) scanObligations(p string) []*Obligation {
	var out []*Obligation
	for _, r := range e.cs.Onlys {
		if !hasProp(r.Props, p) {
			continue
		}
		allowed := map[string]bool{}
		for _, a := range r.Allowed {
			allowed[a] = true
			if _, ok := e.funcByKey[a]; !ok {
				e.cerrors = append(e.cerrors, fmt.Sprintf("%s:%d: only: unknown function %s", r.File, r.Line, a))
			}
		}
		var bad []string
		sites := 0
		for _, f := range e.allFuncs {
			for _, b := range f.Blocks {
				for _, ins := range b.Instrs {
					ci, ok := ins.(ssa.CallInstruction)
					if !ok {
						continue
					}
					c := ci.Common()
					name := ""
					if c.IsInvoke() {
						name = c.Method.FullName()
					} else if g := c.StaticCallee(); g != nil {
						name = e.extName(g)
						if e.inRepo(g) {
							name = e.funcKey(g)
						}
					}
					// function values passed around (method values / closures) count as uses too
					if name == "" {
						continue
					}
					if r.Within {
						if pk := e.pkgOf(f); pk == nil || pk.Pkg.Path() != r.Pkg {
							continue
						}
					}
					if name == r.Callee || (r.Pkg != "" && name == r.Pkg+"::"+r.Callee) {
						sites++
						if !allowed[e.funcKey(f)] {
							bad = append(bad, fmt.Sprintf("%s at %s", e.funcKey(f), posString(e.fset, ins.Pos())))
						}
					}
				}
				// address-taken uses
				for _, ins := range b.Instrs {
					if _, ok := ins.(*ssa.DebugRef); ok {
						continue
					}
					for _, op := range ins.Operands(nil) {
						if g, ok := (*op).(*ssa.Function); ok {
							if ci, isCall := ins.(ssa.CallInstruction); isCall && ci.Common().Value == g {
								continue
							}
							name := e.extName(g)
							if e.inRepo(g) {
								name = e.funcKey(g)
							}
							if (name == r.Callee || (r.Pkg != "" && name == r.Pkg+"::"+r.Callee)) && !allowed[e.funcKey(f)] {
								bad = append(bad, fmt.Sprintf("%s takes the function value at %s", e.funcKey(f), posString(e.fset, ins.Pos())))
							}
						}
					}
				}
			}
		}
		ft := e.newFT(nil)
		goal := "true"
		text := "only " + r.Callee
		if len(bad) > 0 {
			goal = "false"
		}
		o := &Obligation{Name: "scan/" + text, Kind: "scan", Props: r.Props, Func: "scan", Pos: fmt.Sprintf("%s:%d", filepath.Base(r.File), r.Line),
			Text: text, Goal: goal, Reach: "true", ft: ft, SrcLine: strings.Join(bad, "; ")}
		if sites == 0 {
			o.SrcLine = "no call sites found"
		}
		out = append(out, o)
	}
	return out
}

// globalConstObligations: "globalconst NAME FUNC literal" - the package
// variable is stored exactly once in the repository, by the package
// initializer, with the value FUNC("literal").
func (e *Engine) globalConstObligations(p string) []*Obligation {
	var out []*Obligation
	for _, g := range e.cs.GlobalConsts {
		if !hasProp(g.Props, p) {
			continue
		}
		stores := 0
		good := false
		detail := ""
		for _, f := range e.allFuncs {
			if f.Pkg == nil {
				continue
			}
			for _, b := range f.Blocks {
				for _, ins := range b.Instrs {
					st, ok := ins.(*ssa.Store)
					if !ok {
						continue
					}
					gl, ok := st.Addr.(*ssa.Global)
					if !ok || gl.Name() != g.Name || gl.Pkg.Pkg.Path() != g.Pkg {
						continue
					}
					stores++
					if f.Name() != "init" {
						detail = "assigned in " + shortFuncName(f)
						continue
					}
					if c, ok := st.Val.(*ssa.Call); ok {
						if sc := c.Call.StaticCallee(); sc != nil && e.extName(sc) == g.Func && len(c.Call.Args) == 1 {
							if k, ok := c.Call.Args[0].(*ssa.Const); ok && k.Value != nil && k.Value.Kind() == constant.String && constant.StringVal(k.Value) == g.Lit {
								good = true
								continue
							}
						}
					}
					detail = "initializer is not " + g.Func + "(" + strconv.Quote(g.Lit) + ")"
				}
			}
		}
		if stores != 1 && detail == "" {
			detail = fmt.Sprintf("%d assignments found", stores)
		}
		ft := e.newFT(nil)
		goal := "true"
		if !(good && stores == 1) {
			goal = "false"
		}
		out = append(out, &Obligation{Name: "scan/globalconst " + g.Name, Kind: "scan", Props: g.Props, Func: "scan", Pos: fmt.Sprintf("%s:%d", filepath.Base(g.File), g.Line),
			Text: g.Name + " == " + g.Func + "(" + strconv.Quote(g.Lit) + ") and never reassigned", Goal: goal, Reach: "true", ft: ft, SrcLine: detail})
	}
	return out
}

// emitOnSuccessObligations: "emitonsuccess FUNC VAR" - no store to the
// variable VAR inside FUNC can be followed (CFG reachability) by a return of
// the constant false.
func (e *Engine) emitOnSuccessObligations(p string) []*Obligation {
	var out []*Obligation
	for _, r := range e.cs.EmitOnSuccess {
		if !hasProp(r.Props, p) {
			continue
		}
		detail := ""
		f, ok := e.funcByKey[r.Func]
		stores := 0
		if !ok {
			detail = "unknown function " + r.Func
		} else {
			isVar := func(v ssa.Value) bool {
				switch a := v.(type) {
				case *ssa.FreeVar:
					return a.Name() == r.Var
				case *ssa.Alloc:
					return a.Comment == r.Var
				case *ssa.Global:
					return a.Name() == r.Var
				}
				return false
			}
			returnsFalse := func(b *ssa.BasicBlock) bool {
				if len(b.Instrs) == 0 {
					return false
				}
				ret, ok := b.Instrs[len(b.Instrs)-1].(*ssa.Return)
				if !ok || len(ret.Results) == 0 {
					return false
				}
				k, ok := ret.Results[0].(*ssa.Const)
				return ok && k.Value != nil && k.Value.Kind() == constant.Bool && !constant.BoolVal(k.Value)
			}
			for _, b := range f.Blocks {
				for _, ins := range b.Instrs {
					st, ok := ins.(*ssa.Store)
					if !ok || !isVar(st.Addr) {
						continue
					}
					stores++
					seen := map[*ssa.BasicBlock]bool{}
					work := []*ssa.BasicBlock{b}
					first := true
					for len(work) > 0 {
						x := work[len(work)-1]
						work = work[:len(work)-1]
						if !first || true {
							if returnsFalse(x) && (x != b || true) {
								detail = fmt.Sprintf("%s: %s can be followed by 'return false'", e.fset.Position(st.Pos()), strings.TrimSpace(e.sourceLine(st.Pos())))
							}
						}
						first = false
						for _, s := range x.Succs {
							if !seen[s] {
								seen[s] = true
								work = append(work, s)
							}
						}
					}
				}
			}
			if stores == 0 && detail == "" {
				detail = "no assignment to " + r.Var + " in " + r.Func
			}
		}
		ft := e.newFT(nil)
		goal := "true"
		if detail != "" {
			goal = "false"
		}
		out = append(out, &Obligation{Name: "scan/emitonsuccess " + shortKey(r.Func) + ":" + r.Var, Kind: "scan", Props: r.Props, Func: "scan", Pos: fmt.Sprintf("%s:%d", filepath.Base(r.File), r.Line),
			Text: "what " + shortKey(r.Func) + " itself appends to " + r.Var + " is appended only when it can no longer return false", Goal: goal, Reach: "true", ft: ft, SrcLine: detail})
	}
	return out
}

// constFormatObligations: "constformat" - no text that is data reaches a
// printf-like function as its format string.
func (e *Engine) constFormatObligations(p string) []*Obligation {
	var out []*Obligation
	// printf-like functions: the fmt family, and repository functions that
	// hand one of their own string parameters on as a format (wrappers)
	fmtIdx := map[string]int{"fmt.Printf": 0, "fmt.Sprintf": 0, "fmt.Errorf": 0, "fmt.Fprintf": 1, "fmt.Appendf": 1, "log.Printf": 0, "log.Fatalf": 0, "log.Panicf": 0}
	wrapper := map[*ssa.Function]int{}
	formatArg := func(c *ssa.CallCommon) (ssa.Value, bool) {
		callee := c.StaticCallee()
		if callee == nil {
			return nil, false
		}
		if i, ok := fmtIdx[e.extName(callee)]; ok && i < len(c.Args) {
			return c.Args[i], true
		}
		if i, ok := wrapper[callee]; ok && i < len(c.Args) {
			return c.Args[i], true
		}
		return nil, false
	}
	for changed := true; changed; {
		changed = false
		for _, f := range e.allFuncs {
			if !e.inRepo(f) {
				continue
			}
			if _, ok := wrapper[f]; ok {
				continue
			}
			for _, b := range f.Blocks {
				for _, ins := range b.Instrs {
					ci, ok := ins.(ssa.CallInstruction)
					if !ok {
						continue
					}
					if a, ok := formatArg(ci.Common()); ok {
						if prm, ok := a.(*ssa.Parameter); ok {
							for i, q := range f.Params {
								if q == prm {
									// static calls pass the receiver as first argument: same index
									wrapper[f] = i
									changed = true
								}
							}
						}
					}
				}
			}
		}
	}
	for _, r := range e.cs.ConstFormats {
		if !hasProp(r.Props, p) {
			continue
		}
		var bad []string
		sites := 0
		for _, f := range e.allFuncs {
			pk := e.pkgOf(f)
			if pk == nil || pk.Pkg.Path() != r.Pkg {
				continue
			}
			for _, b := range f.Blocks {
				for _, ins := range b.Instrs {
					ci, ok := ins.(ssa.CallInstruction)
					if !ok {
						continue
					}
					a, ok := formatArg(ci.Common())
					if !ok {
						continue
					}
					sites++
					if _, isConst := a.(*ssa.Const); isConst {
						continue
					}
					if prm, isParam := a.(*ssa.Parameter); isParam && prm.Parent() == f {
						if _, w := wrapper[f]; w {
							continue
						}
					}
					bad = append(bad, fmt.Sprintf("%s: %s", e.fset.Position(ins.Pos()), strings.TrimSpace(e.sourceLine(ins.Pos()))))
				}
			}
		}
		ft := e.newFT(nil)
		goal := "true"
		detail := fmt.Sprintf("%d printf-like calls, all with constant format", sites)
		if len(bad) > 0 {
			goal = "false"
			detail = "format string is data: " + strings.Join(bad, "; ")
		}
		out = append(out, &Obligation{Name: "scan/constformat " + shortKey(r.Pkg), Kind: "scan", Props: r.Props, Func: "scan", Pos: fmt.Sprintf("%s:%d", filepath.Base(r.File), r.Line),
			Text: "no data is interpreted as a printf format in package " + shortKey(r.Pkg), Goal: goal, Reach: "true", ft: ft, SrcLine: detail})
	}
	return out
}

// fieldsComparedObligations: "fieldscompared" - a comparison that is meant to
// cover the whole content of a struct reads every field of it (a field added
// to the struct but not to the comparison makes two different objects equal).
func (e *Engine) fieldsComparedObligations(p string) []*Obligation {
	var out []*Obligation
	for _, r := range e.cs.FieldsCompared {
		if !hasProp(r.Props, p) {
			continue
		}
		detail := ""
		var roots []*ssa.Function
		for _, k := range r.Funcs {
			f, ok := e.funcByKey[k]
			if !ok {
				detail = "unknown function " + k
				break
			}
			roots = append(roots, f)
		}
		var st *types.Struct
		if detail == "" {
			if obj := roots[0].Pkg.Pkg.Scope().Lookup(r.Type); obj != nil {
				st, _ = obj.Type().Underlying().(*types.Struct)
			}
			if st == nil {
				detail = "unknown struct type " + r.Type
			}
		}
		if detail == "" {
			named := roots[0].Pkg.Pkg.Scope().Lookup(r.Type).Type()
			isT := func(t types.Type) bool {
				if pt, ok := t.Underlying().(*types.Pointer); ok {
					t = pt.Elem()
				}
				return types.Identical(t, named)
			}
			read := map[string]bool{}
			seen := map[*ssa.Function]bool{}
			work := append([]*ssa.Function{}, roots...)
			for len(work) > 0 {
				f := work[len(work)-1]
				work = work[:len(work)-1]
				if seen[f] {
					continue
				}
				seen[f] = true
				work = append(work, f.AnonFuncs...)
				for _, b := range f.Blocks {
					for _, ins := range b.Instrs {
						switch x := ins.(type) {
						case *ssa.FieldAddr:
							if isT(x.X.Type()) {
								read[st.Field(x.Field).Name()] = true
							}
						case *ssa.Field:
							if isT(x.X.Type()) {
								read[st.Field(x.Field).Name()] = true
							}
						case ssa.CallInstruction:
							if c := x.Common().StaticCallee(); c != nil && c.Pkg == roots[0].Pkg && c.Blocks != nil {
								work = append(work, c)
							}
						}
					}
				}
			}
			var missing []string
			for i := 0; i < st.NumFields(); i++ {
				n := st.Field(i).Name()
				skip := false
				for _, x := range r.Except {
					skip = skip || x == n
				}
				if !skip && !read[n] {
					missing = append(missing, n)
				}
			}
			if len(missing) > 0 {
				detail = "field(s) of " + r.Type + " not read by the comparison: " + strings.Join(missing, ", ")
			}
		}
		ft := e.newFT(nil)
		goal := "true"
		if detail != "" {
			goal = "false"
		}
		out = append(out, &Obligation{Name: "scan/fieldscompared " + r.Type, Kind: "scan", Props: r.Props, Func: "scan", Pos: fmt.Sprintf("%s:%d", filepath.Base(r.File), r.Line),
			Text: "every content field of " + r.Type + " is read by " + strings.Join(r.Funcs, ", "), Goal: goal, Reach: "true", ft: ft, SrcLine: detail})
	}
	return out
}

// freshInLoopObligations: "freshinloop" - a decode target (or any buffer whose
// old content must not leak into the next round) is a new variable in every
// iteration of the loop.
func (e *Engine) freshInLoopObligations(p string) []*Obligation {
	var out []*Obligation
	for _, r := range e.cs.FreshInLoops {
		if !hasProp(r.Props, p) {
			continue
		}
		detail := ""
		f, ok := e.funcByKey[r.Func]
		if !ok {
			detail = "unknown function " + r.Func
		} else {
			li := findLoops(f)
			var lp *loop
			for _, l := range li.loops {
				if l.ordinal == r.Loop {
					lp = l
				}
			}
			found := false
			if lp == nil {
				detail = fmt.Sprintf("%s has no loop %d", shortKey(r.Func), r.Loop)
			} else {
				for _, b := range f.Blocks {
					for _, ins := range b.Instrs {
						if a, ok := ins.(*ssa.Alloc); ok && a.Comment == r.Var {
							found = true
							if !lp.body[b] {
								detail = fmt.Sprintf("%s: variable %s is declared outside loop %d: its content survives from one iteration to the next", e.fset.Position(a.Pos()), r.Var, r.Loop)
							}
						}
					}
				}
				if !found && detail == "" {
					detail = "no addressable local variable " + r.Var + " in " + shortKey(r.Func)
				}
			}
		}
		ft := e.newFT(nil)
		goal := "true"
		if detail != "" {
			goal = "false"
		}
		out = append(out, &Obligation{Name: "scan/freshinloop " + shortKey(r.Func) + ":" + r.Var, Kind: "scan", Props: r.Props, Func: "scan", Pos: fmt.Sprintf("%s:%d", filepath.Base(r.File), r.Line),
			Text: r.Var + " is a new variable in every iteration of loop " + strconv.Itoa(r.Loop) + " of " + shortKey(r.Func), Goal: goal, Reach: "true", ft: ft, SrcLine: detail})
	}
	return out
}

// forbidGlobalObligations: "forbidglobal" - process-wide library state whose
// content depends on the environment of the process (http.DefaultTransport
// reads the proxy variables) is not used by the repository.
func (e *Engine) forbidGlobalObligations(p string) []*Obligation {
	var out []*Obligation
	for _, r := range e.cs.ForbidGlobals {
		if !hasProp(r.Props, p) {
			continue
		}
		var uses []string
		for _, f := range e.allFuncs {
			if !e.inRepo(f) {
				continue
			}
			for _, b := range f.Blocks {
				for _, ins := range b.Instrs {
					for _, op := range ins.Operands(nil) {
						if g, ok := (*op).(*ssa.Global); ok && g.Pkg != nil && g.Pkg.Pkg.Path()+"."+g.Name() == r.Name {
							uses = append(uses, fmt.Sprintf("%s (%s)", e.fset.Position(ins.Pos()), shortFuncName(f)))
						}
					}
				}
			}
		}
		ft := e.newFT(nil)
		goal := "true"
		detail := "no reference in the repository"
		if len(uses) > 0 {
			goal = "false"
			detail = "used at " + strings.Join(uses, "; ")
		}
		out = append(out, &Obligation{Name: "scan/forbidglobal " + r.Name, Kind: "scan", Props: r.Props, Func: "scan", Pos: fmt.Sprintf("%s:%d", filepath.Base(r.File), r.Line),
			Text: "the repository does not use " + r.Name, Goal: goal, Reach: "true", ft: ft, SrcLine: detail})
	}
	return out
}

// storesOnlyObligations: "storesonly" - a local list or flag that several
// closures of one function share is assigned only where the contract says.
func (e *Engine) storesOnlyObligations(p string) []*Obligation {
	var out []*Obligation
	for _, r := range e.cs.StoresOnlys {
		if !hasProp(r.Props, p) {
			continue
		}
		detail := ""
		root, ok := e.funcByKey[r.Func]
		if !ok {
			detail = "unknown function " + r.Func
		} else {
			allowed := map[string]bool{}
			for _, a := range r.Allowed {
				allowed[a] = true
			}
			var bad []string
			stores := 0
			var walk func(f *ssa.Function)
			walk = func(f *ssa.Function) {
				for _, b := range f.Blocks {
					for _, ins := range b.Instrs {
						st, ok := ins.(*ssa.Store)
						if !ok {
							continue
						}
						isVar := false
						switch a := st.Addr.(type) {
						case *ssa.FreeVar:
							isVar = a.Name() == r.Var
						case *ssa.Alloc:
							isVar = a.Comment == r.Var && f == root
						}
						if !isVar {
							continue
						}
						stores++
						if !allowed[e.funcKey(f)] {
							bad = append(bad, fmt.Sprintf("%s at %s", shortFuncName(f), e.fset.Position(st.Pos())))
						}
					}
				}
				for _, c := range f.AnonFuncs {
					walk(c)
				}
			}
			walk(root)
			if len(bad) > 0 {
				detail = r.Var + " is assigned in " + strings.Join(bad, "; ")
			} else if stores == 0 {
				detail = "no assignment to an addressable variable " + r.Var + " in " + shortKey(r.Func)
			}
		}
		ft := e.newFT(nil)
		goal := "true"
		if detail != "" {
			goal = "false"
		}
		out = append(out, &Obligation{Name: "scan/storesonly " + shortKey(r.Func) + ":" + r.Var, Kind: "scan", Props: r.Props, Func: "scan", Pos: fmt.Sprintf("%s:%d", filepath.Base(r.File), r.Line),
			Text: r.Var + " of " + shortKey(r.Func) + " is assigned only in the listed functions", Goal: goal, Reach: "true", ft: ft, SrcLine: detail})
	}
	return out
}

func shortKey(k string) string {
	if i := strings.LastIndex(k, "/"); i >= 0 {
		return k[i+1:]
	}
	return k
}

func (e *Engine) sourceSpan(pos token.Pos, n int) string {
	if !pos.IsValid() {
		return ""
	}
	p := e.fset.Position(pos)
	l := e.lines(p.Filename)
	var out []string
	for i := p.Line - 1; i < p.Line-1+n && i < len(l); i++ {
		out = append(out, strings.TrimSpace(l[i]))
	}
	return strings.Join(out, " ")
}

func (e *Engine) addrTakenWithSig(sig *types.Signature) []*ssa.Function {
	var out []*ssa.Function
	for f := range e.addrTaken {
		if types.Identical(f.Signature, sig) || sameParams(f.Signature, sig) {
			out = append(out, f)
		}
	}
	sort.Slice(out, func(i, j int) bool { return out[i].String() < out[j].String() })
	return out
}

// declareAxioms: trusted axioms from contract/spec files become global axioms.
func (e *Engine) declareAxioms() {
	for _, a := range e.cs.Axioms {
		ft := &FT{e: e}
		ft.inQuant = 1
		env := &SpecEnv{ft: ft, vars: map[string]SVal{}, cur: &State{heaps: map[string]string{}}}
		env.old = env.cur
		if a.Pkg != "" {
			env.pkg = e.tpkgs[a.Pkg]
		}
		t, err := env.evalBool(a.E)
		if err != nil {
			e.cerrors = append(e.cerrors, fmt.Sprintf("%s: axiom %s: %v", a.File, a.Text, err))
			continue
		}
		e.u.axiom(t)
	}
}

func (e *Engine) sourceBefore(pos token.Pos, n int) string {
	if !pos.IsValid() {
		return ""
	}
	p := e.fset.Position(pos)
	l := e.lines(p.Filename)
	var out []string
	for i := p.Line - 1 - n; i < p.Line-1 && i < len(l); i++ {
		if i >= 0 {
			out = append(out, strings.TrimSpace(l[i]))
		}
	}
	return strings.Join(out, " ")
}

// deferReachable: can fn be executed (transitively) from a deferred call?
func (e *Engine) deferReachable(fn *ssa.Function) bool {
	if e.deferReach == nil {
		e.deferReach = map[*ssa.Function]bool{}
		var work []*ssa.Function
		var cur *ssa.Function
		add := func(f *ssa.Function) {
			if f != nil && !e.deferReach[f] && e.inRepo(f) {
				e.deferReach[f] = true
				work = append(work, f)
				if os.Getenv("GOVC_DEBUG_DEFER") != "" {
					from := "<defer>"
					if cur != nil {
						from = cur.String()
					}
					fmt.Fprintf(os.Stderr, "defer-reach %s <- %s\n", f, from)
				}
			}
		}
		targets := func(c *ssa.CallCommon) []*ssa.Function {
			if c.IsInvoke() {
				return e.implementations(c)
			}
			if g := c.StaticCallee(); g != nil {
				return []*ssa.Function{g}
			}
			if _, isB := c.Value.(*ssa.Builtin); isB {
				return nil
			}
			return e.addrTakenWithSig(c.Signature())
		}
		for _, f := range e.allFuncs {
			for _, b := range f.Blocks {
				for _, ins := range b.Instrs {
					if d, ok := ins.(*ssa.Defer); ok {
						for _, g := range targets(&d.Call) {
							add(g)
						}
					}
				}
			}
		}
		for len(work) > 0 {
			f := work[len(work)-1]
			work = work[:len(work)-1]
			cur = f
			for _, b := range f.Blocks {
				for _, ins := range b.Instrs {
					switch x := ins.(type) {
					case ssa.CallInstruction:
						for _, g := range targets(x.Common()) {
							add(g)
						}
					case *ssa.MakeClosure:
						add(x.Fn.(*ssa.Function))
					}
				}
			}
		}
	}
	return e.deferReach[fn]
}

// worthInlining: for the property being checked, is it useful to see the body
// of this uncontracted callee?  Small helpers, callees that (transitively) call
// functions with preconditions tagged with the property, and callees that touch
// ghost state are inlined; everything else is summarised by its write set.
func (e *Engine) worthInlining(f *ssa.Function) bool {
	n := 0
	for _, b := range f.Blocks {
		for _, ins := range b.Instrs {
			if _, ok := ins.(*ssa.DebugRef); !ok {
				n++
			}
		}
	}
	if n <= 40 {
		return true
	}
	if e.curProp == "" {
		return true
	}
	// higher-order helpers (calling a function-typed parameter) are only
	// meaningful together with the closure passed in
	if len(e.paramCalls[f]) > 0 {
		return true
	}
	if e.relCache == nil {
		e.relCache = map[string]map[*ssa.Function]bool{}
	}
	rel, ok := e.relCache[e.curProp]
	if !ok {
		rel = e.relevantFuncs(e.curProp)
		e.relCache[e.curProp] = rel
	}
	if rel[f] {
		return true
	}
	for h := range e.modsets[f] {
		if strings.HasPrefix(h, "G$ghost$") {
			return true
		}
	}
	return false
}
