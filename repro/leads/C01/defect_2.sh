#!/bin/bash
# NOTE: the device used for "run 2" is the hand-computed result of applying the output
# of run 1 of the UNCHANGED code; with a fixed binary only run 1 is meaningful.
# C01 defect 2: left-over generated object-group that duplicates a group
# still in use is not cleaned up in the run that makes it superfluous; a second
# compare of the result reports a change ("no object-group network g7-DRC-0").
#
# Device has two identical groups: x1 (in use) and g7-DRC-0 (left-over of an
# earlier run).  Netspoc group g1 has the same content and is used in the
# existing line and in one new line.
#  - diffASAACLs first runs findGroupOnDevice(g1) for the inserted line; it
#    takes the first identical device group in name order, g7-DRC-0, and marks
#    it 'needed'.
#  - equalizedGroups(x1, g1) for the unchanged line then sees identical
#    content and silently re-binds g1 to x1 (gb.name = ga.name) without
#    releasing g7-DRC-0.
# g7-DRC-0 stays 'needed' although nothing references it, so deleteUnused()
# skips it.  Violates "a second compare of that result against the same target
# reports no change" (covered inputs: duplicated groups / left-over generated
# objects).
set -e
export GOFLAGS=-mod=mod GOPROXY=off GOSUMDB=off GOTOOLCHAIN=local
T=$(mktemp -d /tmp/C01a-defect.XXXXXX)
DRC=${DRC:-${BIN:-}}
if [ -z "$DRC" ]; then
  DRC=$T/drc
  (cd ${SRC:-/tmp/wt/C01a/go} && go build -o $DRC ./cmd/drc)
fi
info() { echo '{"model":"ASA","name_list":["router"],"ip_list":["10.1.13.33"]}' > "$1.info"; }
cd $T
cat > dev <<'END'
interface Ethernet0/0
 nameif inside
object-group network g7-DRC-0
 network-object host 10.0.0.2
object-group network x1
 network-object host 10.0.0.2
access-list inside_in extended permit ip any4 object-group x1
access-group inside_in in interface inside
END
cat > spoc <<'END'
object-group network g1
 network-object host 10.0.0.2
access-list inside_in extended permit ip object-group g1 any4
access-list inside_in extended permit ip any4 object-group g1
access-group inside_in in interface inside
END
info spoc
echo "### run 1 (expected additionally: no object-group network g7-DRC-0)"
$DRC dev spoc
echo "### run 2 on result of run 1 (line 1 inserted), expected: no output"
cat > dev2 <<'END'
interface Ethernet0/0
 nameif inside
object-group network g7-DRC-0
 network-object host 10.0.0.2
object-group network x1
 network-object host 10.0.0.2
access-list inside_in extended permit ip object-group x1 any4
access-list inside_in extended permit ip any4 object-group x1
access-group inside_in in interface inside
END
$DRC dev2 spoc
