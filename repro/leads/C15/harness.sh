#!/bin/bash
# usage: harness.sh SCENARIOFILE NETSPOCFILE [simulator]
# Runs drc against simulated IOS device, prints stderr, exit code and router.change
DRC=${DRC:-/tmp/C15a-scratch/drc}
SIM=${3:-/tmp/wt/C15a/go/testdata/simulate-cisco.pl}
W=$(mktemp -d /tmp/C15a-scratch/w/XXXXXX)
mkdir -p $W/code $W/log
cp "$1" $W/scenario
cp "$2" $W/code/router
cat > $W/code/router.info <<E2
{"model":"IOS","name_list":["router"],"ip_list":["10.1.13.33"]}
E2
echo '* admin secret' > $W/credentials
cat > $W/.netspoc-approve <<E2
basedir = $W
checkbanner = NetSPoC
systemuser = admin
timeout = ${TIMEOUT:-2}
E2
mkdir -p $W/lock $W/status $W/history
cd $W
HOME=$W SIMULATE_ROUTER="$SIM router $W/scenario" $DRC -q -L $W/log code/router
echo "=== exit code: $?"
echo "=== router.change:"
cat -v $W/log/router.change
