package main

import (
	"bytes"
	"context"
	"fmt"
	"os"
	"os/exec"
	"path/filepath"
	"strings"
	"sync"
	"time"
)

type solverSpec struct {
	name string
	argv func(file string, timeout int) []string
}

var solvers = []solverSpec{
	{"z3-5.1.0", func(f string, t int) []string { return []string{"z3-new", fmt.Sprintf("-T:%d", t), f} }},
	{"z3-4.8.12", func(f string, t int) []string { return []string{"z3", fmt.Sprintf("-T:%d", t), f} }},
	{"cvc5-1.0.3", func(f string, t int) []string {
		return []string{"cvc5", "--produce-models", fmt.Sprintf("--tlimit=%d", t*1000), f}
	}},
}

func (o *Obligation) script(prelude string) string {
	var b strings.Builder
	body := o.ft.decls.String()[:o.Prefix]
	b.WriteString(o.ft.e.u.preludeFor(body + " " + o.Reach + " " + o.Goal))
	b.WriteString("; ---- function " + o.Func + "\n")
	b.WriteString(body)
	b.WriteString("; ---- obligation " + o.Name + "\n")
	fmt.Fprintf(&b, "(assert %s)\n", o.Reach)
	if o.Cover {
		fmt.Fprintf(&b, "(assert %s)\n", o.Goal)
	} else {
		fmt.Fprintf(&b, "(assert (not %s))\n", o.Goal)
	}
	b.WriteString("(check-sat)\n")
	return b.String()
}

func runSolver(sp solverSpec, file string, timeout int, withModel bool) (string, string, float64) {
	ctx, cancel := context.WithTimeout(context.Background(), time.Duration(timeout+2)*time.Second)
	defer cancel()
	argv := sp.argv(file, timeout)
	cmd := exec.CommandContext(ctx, argv[0], argv[1:]...)
	var out bytes.Buffer
	cmd.Stdout = &out
	cmd.Stderr = &out
	t0 := time.Now()
	cmd.Run()
	el := time.Since(t0).Seconds()
	s := out.String()
	first := ""
	for _, l := range strings.Split(s, "\n") {
		l = strings.TrimSpace(l)
		if l == "" || strings.HasPrefix(l, "WARNING:") {
			continue
		}
		first = l
		break
	}
	if strings.Contains(s, "(error ") && !withModel {
		for _, l := range strings.Split(s, "\n") {
			if strings.Contains(l, "(error ") {
				return "error: " + l, s, el
			}
		}
	}
	switch first {
	case "sat", "unsat", "unknown":
	case "timeout":
		first = "timeout"
	default:
		if ctx.Err() != nil {
			first = "timeout"
		} else if strings.Contains(s, "timeout") || strings.Contains(s, "interrupted") {
			first = "timeout"
		} else {
			first = "error: " + first
		}
	}
	return first, s, el
}

type solveStats struct {
	mu       sync.Mutex
	byBackend map[string]int
	seconds  float64
	queries  int
}

// discharge runs the portfolio on all obligations.
func discharge(obls []*Obligation, prelude string, timeout int, twoSolvers bool, workdir string, stats *solveStats) {
	var wg sync.WaitGroup
	ch := make(chan int, len(obls))
	for i := range obls {
		ch <- i
	}
	close(ch)
	workers := 14
	for w := 0; w < workers; w++ {
		wg.Add(1)
		go func(w int) {
			defer wg.Done()
			for i := range ch {
				o := obls[i]
				file := filepath.Join(workdir, fmt.Sprintf("o%d.smt2", i))
				os.WriteFile(file, []byte(o.script(prelude)), 0644)
				solveOne(o, file, timeout, twoSolvers, stats)
				if o.ok() {
					os.Remove(file)
				}
			}
		}(w)
	}
	wg.Wait()
}

func (o *Obligation) ok() bool {
	if o.Cover {
		return o.Result != "unsat"
	}
	return o.Result == "unsat"
}

var sweepMode bool // single solver, no model extraction (zero-annotation sweeps)

func solveOne(o *Obligation, file string, timeout int, twoSolvers bool, stats *solveStats) {
	if sweepMode && !o.Cover {
		res, _, sec := runSolver(solvers[0], file, timeout, false)
		stats.mu.Lock()
		stats.seconds += sec
		stats.queries++
		if res == "unsat" {
			stats.byBackend[solvers[0].name]++
		}
		stats.mu.Unlock()
		o.Result, o.Solver, o.Seconds = res, solvers[0].name, sec
		return
	}
	want := "unsat"
	if o.Cover {
		want = "sat"
	}
	record := func(name string, sec float64) {
		stats.mu.Lock()
		stats.seconds += sec
		stats.queries++
		stats.mu.Unlock()
	}
	// first: z3-new with a short budget
	first := timeout
	if first > 3 {
		first = 3
	}
	res, out, sec := runSolver(solvers[0], file, first, false)
	record(solvers[0].name, sec)
	o.Seconds += sec
	if o.Cover {
		// vacuity checks: only a definite "unsat" is a failure; unknown is inconclusive
		o.Result, o.Solver = res, solvers[0].name
		if res == "sat" {
			stats.mu.Lock()
			stats.byBackend[o.Solver]++
			stats.mu.Unlock()
		}
		return
	}
	confirm := 0
	if res == want {
		o.Result, o.Solver = res, solvers[0].name
		confirm = 1
		if !twoSolvers || o.Cover {
			stats.mu.Lock()
			stats.byBackend[o.Solver]++
			stats.mu.Unlock()
			return
		}
	} else if res == "sat" || res == "unsat" {
		// definite answer of the other kind
		o.Result, o.Solver, o.Model = res, solvers[0].name, out
		if !o.Cover {
			o.Model = getModel(solvers[0], file, timeout)
		}
		return
	}
	// race the others (and z3-new with the full budget)
	type r struct {
		res, out, name string
		sec            float64
	}
	var cands []solverSpec
	if confirm == 0 && timeout > first {
		cands = append(cands, solvers[0])
	}
	cands = append(cands, solvers[1], solvers[2])
	results := make(chan r, len(cands))
	for _, sp := range cands {
		go func(sp solverSpec) {
			res, out, sec := runSolver(sp, file, timeout, false)
			results <- r{res, out, sp.name, sec}
		}(sp)
	}
	got := o.Result
	for range cands {
		x := <-results
		record(x.name, x.sec)
		o.Seconds += x.sec
		if x.res == want {
			if confirm == 0 {
				o.Result, o.Solver = x.res, x.name
				got = x.res
			} else if confirm == 1 {
				o.Solver += "+" + x.name
			}
			confirm++
		} else if (x.res == "sat" || x.res == "unsat") && got != want {
			o.Result, o.Solver, o.Model = x.res, x.name, x.out
			got = x.res
		} else if got == "" {
			o.Result = x.res
			o.Solver = x.name
		}
	}
	if confirm > 0 {
		o.Result = want
		stats.mu.Lock()
		stats.byBackend[strings.SplitN(o.Solver, "+", 2)[0]]++
		stats.mu.Unlock()
		return
	}
	if o.Result == "sat" && !o.Cover {
		for _, sp := range solvers {
			if sp.name == o.Solver {
				o.Model = getModel(sp, file, timeout)
			}
		}
	}
}

func getModel(sp solverSpec, file string, timeout int) string {
	data, err := os.ReadFile(file)
	if err != nil {
		return ""
	}
	mf := file + ".model.smt2"
	os.WriteFile(mf, append(data, []byte("(get-model)\n")...), 0644)
	defer os.Remove(mf)
	_, out, _ := runSolver(sp, mf, timeout, true)
	if len(out) > 60000 {
		out = out[:60000] + "\n...truncated"
	}
	return out
}
