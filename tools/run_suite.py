#!/usr/bin/env python3
"""Run the repository's test suite (guard off) on a tree and compare with BASELINE.json.
usage: run_suite.py [repo_root]   exit 0 iff every stable_pass test passes."""
import json, subprocess, sys, os
root = sys.argv[1] if len(sys.argv) > 1 else '/repo'
env = dict(os.environ, GOFLAGS='-mod=mod', GOPROXY='off', GOSUMDB='off', GOTOOLCHAIN='local')
p = subprocess.run(['go', 'test', '-mod=mod', '-json', '-vet=off', '-count=1', '-timeout', '25m', './...'],
                   cwd=root + '/go', env=env, capture_output=True, text=True)
res = {}
for line in p.stdout.splitlines():
    try:
        ev = json.loads(line)
    except Exception:
        continue
    if ev.get('Action') in ('pass', 'fail') and ev.get('Test'):
        res[ev['Package'] + '::' + ev['Test']] = ev['Action']
base = json.load(open('/root/.vp/BASELINE.json'))
bad = [t for t in base['stable_pass'] if res.get(t) != 'pass']
print('tests run: %d, passed: %d, stable_pass expected: %d, stable failing/missing: %d' % (
    len(res), sum(1 for v in res.values() if v == 'pass'), len(base['stable_pass']), len(bad)))
for t in bad[:40]:
    print('  NOT PASSING:', t, res.get(t))
sys.exit(1 if bad else 0)
