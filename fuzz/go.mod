module fuzz

go 1.23.1

require github.com/hknutzen/Netspoc-Approve/go v0.0.0

require (
	github.com/google/goterm v0.0.0-20200907032337-555d40f16ae2 // indirect
	github.com/pkg/diff v0.0.0-20210226163009-20ebb0f2a09e // indirect
	github.com/tailscale/goexpect v0.0.0-20210902213824-6e8c725cea41 // indirect
	golang.org/x/crypto v0.35.0 // indirect
	golang.org/x/sys v0.30.0 // indirect
	golang.org/x/term v0.29.0 // indirect
)

replace github.com/hknutzen/Netspoc-Approve/go => /repo/go
