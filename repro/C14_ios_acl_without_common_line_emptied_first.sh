#!/bin/bash
# C14 known finding: an IOS extended ACL that stays bound to its interface and
# shares no line with the Netspoc version is not changed by diffIOSACLs but by
# the wholesale path of diffCmds: every device line is removed top-down
# ("no permit ...") before the first new line is added. Packet 10.0.0.2 -> any
# is permitted by the old ACL (host 10.0.0.2) and by the new one (10.0.0.2/31)
# but denied by 'deny ip any any' right after the first command, i.e. a
# management session from 10.0.0.2 is cut; after the last 'no' the ACL is empty.
# Pinned by the existing test ios_parse.t "ACL with unknown keyword" (expects
# 'no permit ... fragments' before 'permit ...').
# Exit 0 = defect reproduced, 1 = not reproduced.
export GOFLAGS=-mod=mod GOPROXY=off GOSUMDB=off GOTOOLCHAIN=local
REPO=${GOVC_REPO:-/repo}
T=$(mktemp -d); trap 'rm -rf $T' EXIT
(cd $REPO/go && go build -o $T/drc ./cmd/drc) || exit 2
mkdir -p $T/code
cat > $T/device <<'EOC'
interface Ethernet0
 ip access-group test in
ip access-list extended test
 permit ip host 10.0.0.2 any
 permit ip host 10.0.0.3 any
 deny ip any any
EOC
cat > $T/code/router <<'EOC'
interface Ethernet0
 ip access-group test in
ip access-list extended test
 permit ip 10.0.0.2 0.0.0.1 any
 deny ip any any log
EOC
echo '{"model":"IOS","name_list":["router"],"ip_list":["10.1.13.33"]}' > $T/code/router.info
cd $T
OUT=$(./drc -q device code/router 2>&1)
echo "$OUT"
FIRST=$(echo "$OUT" | sed -n 2p)
if [ "$FIRST" = "no permit ip host 10.0.0.2 any" ]; then
  echo "DEFECT: first step removes the line that permits 10.0.0.2 while 'deny ip any any' is still in place"
  exit 0
fi
exit 1
