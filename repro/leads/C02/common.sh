# Sourced by defect_N.sh: provides $DRC (built from the worktree unless given).
set -e
if [ -z "$DRC" ]; then DRC="$BIN"; fi
if [ -z "$DRC" ]; then
  export GOFLAGS=-mod=mod GOPROXY=off GOSUMDB=off GOTOOLCHAIN=local
  DRC=$(mktemp -d)/drc
  (cd "${SRC:-/tmp/wt/C02b/go}" && go build -o "$DRC" ./cmd/drc)
fi
T=$(mktemp -d)
cd "$T"
INFO='{"model":"IOS","name_list":["router"],"ip_list":["10.1.13.33"]}'
