#!/bin/bash
# C02 defect 1: changed 'log' attribute of an IOS ACL line is silently ignored,
# if the line stays inside its block of rules with identical action.
#
# Device has 'permit ip host 10.1.1.1 any log', Netspoc wants the same line
# without 'log' (the reverse direction and log <-> log-input behave the same).
# diffIOSACLs finds the line in delMap (key with 'log' stripped) and calls
# moveACL, which returns early because old and new position belong to the
# same block - without checking that the line itself differs.
# Result: no command is emitted and drc reports "comp: device unchanged",
# although the device is not equivalent to the target (property C02:
# "'device unchanged' is reported only for an already equivalent device";
# log variants are part of the quantified inputs).
# Expected: 'no 20000\N 20001 permit ip host 10.1.1.1 any'.
. "$(dirname "$0")/common.sh"
cat > dev <<'END'
ip access-list extended test
 permit tcp any any eq 80
 permit ip host 10.1.1.1 any log
 deny ip any any

interface Ethernet1
 ip access-group test in
END
cat > spoc <<'END'
ip access-list extended test
 permit tcp any any eq 80
 permit ip host 10.1.1.1 any
 deny ip any any

interface Ethernet1
 ip access-group test in
END
echo "$INFO" > spoc.info
echo "--- drc dev spoc   (BUG if 'comp: device unchanged')"
"$DRC" dev spoc
