#!/bin/bash
# C16 violation 1 (Linux, pkg/linux/config.go MergeSpoc):
# Tables and chains of the raw file are merged by ranging over Go maps.
# (a) Without -q the informational lines "Adding all chains of table ..." /
#     "Adding chain ..." are printed to stderr in random order, so stderr of
#     two runs on byte-identical inputs differs.
# (b) If the raw file illegally redefines two Netspoc chains, the reported
#     error ("Must not redefine chain ...") names c1 in one run, c2 in another.
# Change script and exit status are stable; only the messages vary.
# Usage: [DRC=/path/to/drc] [N=60] ./defect_1.sh
. "$(dirname "$0")/common.inc"
cd "$T"
echo '{"model":"Linux","name_list":["router"],"ip_list":["10.1.13.33"]}' > router.info
: > dev
cat > router <<'EOT'
*filter
:INPUT DROP
-A INPUT -i eth0 -s 10.0.6.0/24 -d 10.0.1.11/32 -p udp --dport 123 -j ACCEPT
-A INPUT -j DROP
EOT
cat > router.raw <<'EOT'
*mangle
:PREROUTING ACCEPT
-A PREROUTING -j MARK --set-xmark 0x01 -p TCP --dport 80
*nat
:POSTROUTING ACCEPT
*filter
:INPUT DROP
:c1 -
:c2 -
-A c1 -s 10.0.6.0/24 -j ACCEPT
-A c2 -s 10.0.6.0/24 -j ACCEPT
-A INPUT -i eth0 -p udp -d 224.0.1.1/32 --dport 123 -j c1
EOT
echo "== (a) distinct stderr outputs of $N runs of 'drc dev router' (expected by C16: 1)"
for i in $(seq 1 $N); do "$DRC" dev router 2>&1 >/dev/null | grep Adding | tr '\n' '|'; echo; done | sort | uniq -c

cat > router <<'EOT'
*filter
:INPUT DROP
:c1 -
:c2 -
-A c1 -s 10.0.6.0/24 -j ACCEPT
-A c2 -s 10.0.8.0/24 -j ACCEPT
-A INPUT -i eth0 -p udp -d 224.0.1.1/32 --dport 123 -j c1
-A INPUT -i eth0 -p udp -d 224.0.1.1/32 --dport 124 -j c2
EOT
cat > router.raw <<'EOT'
*filter
:c1 -
:c2 -
-A c1 -s 10.0.7.0/24 -j ACCEPT
-A c2 -s 10.0.9.0/24 -j ACCEPT
EOT
echo "== (b) distinct error messages of $N runs of 'drc -q dev router' (expected by C16: 1)"
for i in $(seq 1 $N); do "$DRC" -q dev router 2>&1; echo "rc=$?"; done | sort | uniq -c
