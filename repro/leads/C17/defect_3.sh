#!/bin/bash
# defect_3.sh -- Property C17: API key is put into the URL without URL
# escaping; a key containing '&' is only partly masked in the session logs
#
# pkg/panos/device.go:
#     s.urlPrefix = fmt.Sprintf("%s/api/?key=%s&", addr, key)     // raw key
#     var apiRE = regexp.MustCompile(`[?]key=.*?&`)               // masking
# The key is taken verbatim from <key>...</key> of the keygen answer (XML
# entities decoded).  The masking regexp stops at the first '&', so if the key
# itself contains '&' (sent by the device as &amp;), everything after it is
# written in plain text to .login (HA check) - and to .config / .change if the
# run got that far.  (The unescaped key also breaks the request itself: the
# device sees a truncated key and answers 403, so the run fails with
# "not in active state / Devices unreachable" - but the log is already written.)
#
# VIOLATION: second part of the API key appears in LOGDIR/router.login.
# C17 quantifies over "all secrets (including characters that need URL
# escaping)"; real PAN-OS keys are base64 and normally contain no '&', so this
# is a corner case of the quantifier rather than an everyday event.
#
# Uses $DRC if set, otherwise builds drc from $SRC (default /tmp/wt/C17a/go).
set -u
export GOFLAGS=-mod=mod GOPROXY=off GOSUMDB=off GOTOOLCHAIN=local
SRC=${SRC:-/tmp/wt/C17a/go}
T=$(mktemp -d /tmp/C17a-d3.XXXXXX)
trap '[ -n "${PID:-}" ] && kill $PID 2>/dev/null; rm -rf "$T"' EXIT
if [ -z "${DRC:-}" ]; then
  DRC=$T/drc; (cd "$SRC" && go build -o "$DRC" ./cmd/drc) || exit 2
fi

# --- simulated PAN-OS device -------------------------------------------
mkdir "$T/sim"
cat > "$T/sim/main.go" <<'EOF_SIM'
// pansim: minimal stand-in for the XML API of a PAN-OS firewall (HTTPS,
// self signed certificate), only Go standard library.
//
//	pansim -urlfile F [-key KEY | -keyresp FILE] [-fail SUBSTR]
//
// Writes its base URL to F and serves until killed.
//
//	type=keygen                  -> answer with API key (KEY, XML escaped) or
//	                                with the raw contents of FILE
//	type=op ...high-availability -> HA not enabled
//	type=config&action=get       -> device "router" with one empty vsys1
//	anything else                -> <response status="success"/>
//
// Every request but keygen must carry the correct key=KEY, else status 403.
//
// If -fail SUBSTR is given, every request whose decoded query string contains
// SUBSTR gets no answer: the TCP connection is closed (transport error, as
// with a crashed management plane, a fail-over or a firewall in the path).
package main

import (
	"encoding/xml"
	"flag"
	"fmt"
	"net/http"
	"net/http/httptest"
	"net/url"
	"os"
	"strings"
)

const config = `<response status = 'success'>
 <result>
  <devices>
   <entry name="localhost.localdomain">
    <deviceconfig><system><hostname>router</hostname></system></deviceconfig>
    <vsys>
     <entry name="vsys1">
     <display-name>FW7-managed-by-Netspoc</display-name>
     </entry>
    </vsys>
   </entry>
  </devices>
 </result>
</response>
`

func main() {
	urlFile := flag.String("urlfile", "", "file to write base URL to")
	key := flag.String("key", "LUFRPT1tWFhUNWUk5N1Fjd3ZnMzh3MXlTOVJyb0kxSG5IWk5QTkdPNw==", "API key")
	keyResp := flag.String("keyresp", "", "file with raw keygen response")
	fail := flag.String("fail", "", "close connection if query contains this")
	flag.Parse()

	var esc strings.Builder
	xml.EscapeText(&esc, []byte(*key))
	keyBody := "<response status = 'success'><result><key>" + esc.String() +
		"</key></result></response>\n"
	if *keyResp != "" {
		b, err := os.ReadFile(*keyResp)
		if err != nil {
			panic(err)
		}
		keyBody = string(b)
	}

	var srv *httptest.Server
	srv = httptest.NewTLSServer(http.HandlerFunc(
		func(w http.ResponseWriter, r *http.Request) {
			raw, _ := url.QueryUnescape(r.URL.RawQuery)
			if *fail != "" && strings.Contains(raw, *fail) {
				if hj, ok := w.(http.Hijacker); ok {
					c, _, _ := hj.Hijack()
					c.Close()
					return
				}
			}
			if !strings.Contains(raw, "type=keygen") &&
				r.URL.Query().Get("key") != *key {
				w.WriteHeader(http.StatusForbidden)
				fmt.Fprint(w, "<response status = 'error' code = '403'>"+
					"<result><msg>Invalid Credential</msg></result></response>\n")
				return
			}
			switch {
			case strings.Contains(raw, "type=keygen"):
				fmt.Fprint(w, keyBody)
			case strings.Contains(raw, "high-availability"):
				fmt.Fprint(w, "<response status='success'><result>"+
					"<enabled>no</enabled></result></response>\n")
			case strings.Contains(raw, "action=get"):
				fmt.Fprint(w, config)
			case strings.Contains(raw, "type=commit"):
				fmt.Fprint(w, `<response status="success" code="19">`+
					"<msg>There are no changes to commit.</msg></response>\n")
			default:
				fmt.Fprint(w, `<response status="success" code="20"></response>`+"\n")
			}
		}))
	srv.Config.ErrorLog = nil
	if err := os.WriteFile(*urlFile+".tmp", []byte(srv.URL), 0644); err != nil {
		panic(err)
	}
	os.Rename(*urlFile+".tmp", *urlFile)
	select {}
}
EOF_SIM
(cd "$T/sim" && go mod init pansim >/dev/null 2>&1 && go build -o "$T/pansim" .) || exit 2

KEY_HEAD='LUFRPT1tWFhUNWUk5N1Fjd3Zn'
KEY_TAIL='Mzh3MXlTOVJyb0kxSG5IWk5QTkdPNw=='
KEY="$KEY_HEAD&$KEY_TAIL"
"$T/pansim" -urlfile "$T/url" -key "$KEY" &
PID=$!
while [ ! -s "$T/url" ]; do sleep 0.1; done

mkdir -p "$T/code" "$T/lock"
cat > "$T/code/router" <<'EOF'
<config><devices><entry name="localhost.localdomain"><vsys><entry name="vsys1">
</entry></vsys></entry></devices></config>
EOF
echo '{"model":"PAN-OS","name_list":["router"],"ip_list":["10.1.13.33"]}' \
  > "$T/code/router.info"
echo '* admin secret' > "$T/credentials"
printf 'basedir = %s\ntimeout = 2\n' "$T" > "$T/.netspoc-approve"
export HOME=$T SIMULATE_ROUTER=$(cat "$T/url")

echo "API key handed out by the device: $KEY"
echo "=== drc -q -L log code/router ==="
"$DRC" -q -L "$T/log" "$T/code/router" > "$T/stdout" 2> "$T/stderr"
echo "exit status $?"
echo "--- stdout"; cat "$T/stdout"
echo "--- stderr"; cat "$T/stderr"
for f in "$T"/log/*; do echo "--- log/$(basename "$f")"; cat "$f"; done
echo
rc=0
for f in "$T/stdout" "$T/stderr" "$T"/log/*; do
  if grep -qF -- "$KEY_TAIL" "$f"; then
    echo "VIOLATION: part of API key ($KEY_TAIL) found in $f"; rc=1
  fi
done
[ $rc = 0 ] && echo "no leak found"
exit $rc
