#!/bin/bash
# C16 violation 2 (ASA/IOS, pkg/cisco/config.go MergeSpoc + mergeRefs):
# Commands of the raw file are merged by ranging over the Go maps
# b.lookup (prefix) and bMap (name).  mergeRefs() looks up a SIMPLE_OBJ
# (ip local pool, crypto ipsec transform-set / ipsec-proposal) with
# findSimpleObject() in the partially merged config, so if the raw file holds
# two simple objects with identical definition (a tie), the one that is
# merged first wins and the other one is replaced by it.
# (a) Change script differs between runs on identical input:
#     "ip local pool poolA-DRC-0 ..." + "address-pools value poolA-DRC-0"  vs.
#     "ip local pool poolZ-DRC-0 ..." + "address-pools value poolZ-DRC-0".
# (b) If Netspoc additionally defines a different pool named poolZ, the run
#     either succeeds (poolA merged first, poolZ from raw replaced by it)
#     or aborts with "Name clash for 'ip local pool poolZ' from raw":
#     exit status 0 vs. 1 on identical input.
# Usage: [DRC=/path/to/drc] [N=60] ./defect_2.sh
. "$(dirname "$0")/common.inc"
cd "$T"
echo '{"model":"ASA","name_list":["router"],"ip_list":["10.1.13.33"]}' > router.info
cat > dev <<'EOT'
interface Ethernet0/0
 nameif outside
access-list outside_in extended deny ip any4 any4
access-group outside_in in interface outside
EOT
cat > router <<'EOT'
access-list outside_in extended deny ip any4 any4
access-group outside_in in interface outside
EOT
cat > router.raw <<'EOT'
ip local pool poolA 10.1.219.64-10.1.219.127 mask 0.0.0.63
ip local pool poolZ 10.1.219.64-10.1.219.127 mask 0.0.0.63
group-policy VPN-group2 internal
group-policy VPN-group2 attributes
 address-pools value poolA
group-policy VPN-group3 internal
group-policy VPN-group3 attributes
 address-pools value poolZ
tunnel-group 1.1.1.2 type ipsec-l2l
tunnel-group 1.1.1.2 general-attributes
 default-group-policy VPN-group2
tunnel-group 1.1.1.3 type ipsec-l2l
tunnel-group 1.1.1.3 general-attributes
 default-group-policy VPN-group3
EOT
echo "== (a) one change script:"
"$DRC" -q dev router
echo "== (a) pool lines of $N runs (expected by C16: one variant)"
for i in $(seq 1 $N); do "$DRC" -q dev router 2>&1 | grep -E "ip local pool|address-pools" | sort -u | tr '\n' '|'; echo; done | sort | uniq -c

cat >> router <<'EOT'
ip local pool poolZ 10.1.219.192-10.1.219.255 mask 0.0.0.63
group-policy VPN-group1 internal
group-policy VPN-group1 attributes
 address-pools value poolZ
tunnel-group 1.1.1.1 type ipsec-l2l
tunnel-group 1.1.1.1 general-attributes
 default-group-policy VPN-group1
EOT
M=$((N*4))
echo "== (b) exit status / stderr of $M runs (expected by C16: one variant)"
for i in $(seq 1 $M); do "$DRC" -q dev router >/dev/null 2>err; echo "rc=$? $(cat err)"; done | sort | uniq -c
