#!/bin/bash
# C06: "If no banner text is configured, the banner check is skipped and approve
# works normally."  On Linux, with 'checkbanner' absent from the config file,
# linux.checkBanner dereferences the nil *regexp.Regexp and the run dies with a
# runtime panic (exit status 2).
# Exit 0 = defect reproduced, 1 = not reproduced (approve works).
export GOFLAGS=-mod=mod GOPROXY=off GOSUMDB=off GOTOOLCHAIN=local
REPO=${GOVC_REPO:-/repo}
T=$(mktemp -d); trap 'rm -rf $T' EXIT
(cd $REPO/go && go build -o $T/drc ./cmd/drc) || exit 2
mkdir -p $T/home/code $T/home/lock
cat > $T/home/.netspoc-approve <<EOC
basedir = $T/home
systemuser = admin
timeout = 1
EOC
echo "* admin secret" > $T/home/credentials
cat > $T/home/code/router.info <<EOC
{"model":"Linux","name_list":["router"],"ip_list":["10.1.13.33"]}
EOC
cat > $T/home/code/router <<EOC
ip route add 0.0.0.0/0 via 10.1.1.1
EOC
cat > $T/scenario <<'EOC'

root@linux-router:~#
# echo $?
0
# uname -r
3.2.89-2.custom
# uname -m
i686
# hostname -s
router
# which iptables-restore
/sbin/iptables-restore
# ip route show
0.0.0.0/0 via 10.1.1.1
# iptables-save

EOC
cd $T/home
OUT=$(HOME=$T/home SIMULATE_ROUTER="$REPO/go/testdata/simulate-cisco.pl router $T/scenario" $T/drc -q code/router 2>&1); ST=$?
echo "exit status $ST"; echo "$OUT" | head -5
if [ $ST -eq 2 ] && echo "$OUT" | grep -q "nil pointer dereference"; then echo "REPRODUCED: nil dereference in linux.checkBanner"; exit 0; fi
exit 1
