#!/bin/bash
# Defect 1 (property C04, "A second compare reports no change"):
# sortRules() in go/pkg/nsx/diff.go orders rules that are equal in all plain
# attributes by the FIRST address of their source/destination group only.
# If two rules differ only in groups that start with the same address, the
# comparator returns 0 and the (stable) sort keeps the order of the input.
# Device and Netspoc list the rules in different order (rules share the
# sequence number, NSX lists them e.g. by id, Netspoc in its own order), so
# the positional pairing after myers.Diff pairs r1(device) with r2(target):
# drc "equalizes" the groups crosswise, i.e. reports and sends changes to a
# manager that is already equivalent to the target.
#
# Stage 1: approve target onto a manager with empty policy  -> PUT g1,g0,r2,r1
# Stage 2: the manager now holds exactly the target (file 'device2' below is
#          the state after stage 1, rules listed by id r1,r2).
#          Expected output: none.  Observed: 4 POSTs that swap the contents
#          of Netspoc-g0 and Netspoc-g1  => second compare reports changes
#          although the manager is equivalent to the target.
set -e
export GOFLAGS=-mod=mod GOPROXY=off GOSUMDB=off GOTOOLCHAIN=local
T=$(mktemp -d)
DRC=${DRC:-${BIN:-}}
if [ -z "$DRC" ]; then
  DRC=$T/drc; (cd /tmp/wt/C04b/go && go build -o $DRC ./cmd/drc)
fi
cd $T
g() { echo "{\"id\":\"$1\",\"expression\":[{\"id\":\"id\",\"resource_type\":\"IPAddressExpression\",\"ip_addresses\":[$2]}]}"; }
r() { echo "{\"resource_type\":\"Rule\",\"id\":\"$1\",\"scope\":[\"/infra/tier-0s/v1\"],\"direction\":\"OUT\",\"ip_protocol\":\"IPV4\",\"sequence_number\":20,\"action\":\"ALLOW\",\"source_groups\":[\"/infra/domains/default/groups/$2\"],\"destination_groups\":[\"10.1.2.1\"],\"services\":[\"ANY\"]}"; }
G0=$(g Netspoc-g0 '"10.1.1.10","10.1.1.20"')
G1=$(g Netspoc-g1 '"10.1.1.10","10.1.2.40"')
R1=$(r r1 Netspoc-g0)
R2=$(r r2 Netspoc-g1)
echo '{"model":"NSX","name_list":["router"],"ip_list":["10.1.13.33"]}' > router.info
# Netspoc lists r2 before r1.
echo "{\"groups\":[$G0,$G1],\"services\":[],\"policies\":[{\"id\":\"Netspoc-v1\",\"rules\":[$R2,$R1]}]}" > router
echo '{"groups":[],"services":[],"policies":[{"id":"Netspoc-v1","rules":[]}]}' > device1
# State after stage 1, as listed by manager: r1 before r2.
echo "{\"groups\":[$G0,$G1],\"services\":[],\"policies\":[{\"id\":\"Netspoc-v1\",\"rules\":[$R1,$R2]}]}" > device2
echo "=== stage 1: first compare (empty policy -> target)"
$DRC -q device1 router
echo "=== stage 2: second compare (manager holds target; expected: no output)"
$DRC -q device2 router
echo "=== end (any output in stage 2 violates C04)"
rm -rf $T
