package main

import (
	"flag"
	"fmt"
	"os"
	"sort"
	"strings"
	"time"
)

func main() {
	if len(os.Args) < 2 {
		fmt.Fprintln(os.Stderr, "usage: govc <check|vc|funcs|replay|selftest> ...")
		os.Exit(2)
	}
	switch os.Args[1] {
	case "vc":
		cmdVC(os.Args[2:])
	case "funcs":
		cmdFuncs(os.Args[2:])
	case "check":
		os.Exit(cmdCheck(os.Args[2:]))
	case "replay":
		os.Exit(cmdReplay(os.Args[2:]))
	default:
		if f, ok := extraCmds[os.Args[1]]; ok {
			f(os.Args[2:])
			return
		}
		fmt.Fprintln(os.Stderr, "unknown command", os.Args[1])
		os.Exit(2)
	}
}

func envOr(k, d string) string {
	if v := os.Getenv(k); v != "" {
		return v
	}
	return d
}

func repoDir() string  { return envOr("GOVC_REPO", "/repo") + "/go" }
func verifDir() string { return envOr("GOVC_VERIF", "/verif") }

func cmdFuncs(args []string) {
	e, err := loadEngine(repoDir(), verifDir()+"/specs")
	if err != nil {
		fmt.Fprintln(os.Stderr, err)
		os.Exit(2)
	}
	if len(args) > 0 && args[0] == "-addrtaken" {
		for f := range e.addrTaken {
			fmt.Println(f.String(), f.Signature)
		}
		return
	}
	for _, f := range e.allFuncs {
		key := e.funcKey(f)
		if len(args) > 0 && !strings.Contains(key, args[0]) {
			continue
		}
		var ms []string
		for h, l := range e.modsets[f] {
			ms = append(ms, fmt.Sprintf("%s:%d", h, l))
		}
		sort.Strings(ms)
		fmt.Printf("%s panics=%v mods=%v\n", key, e.panics[f], ms)
	}
}

// vc: debugging aid - generate and discharge the obligations of one function
func cmdVC(args []string) {
	fs := flag.NewFlagSet("vc", flag.ExitOnError)
	safety := fs.Bool("safety", false, "generate safety obligations")
	dump := fs.String("dump", "", "write scripts of failing obligations to this dir")
	timeout := fs.Int("timeout", 5, "solver timeout (s)")
	all := fs.Bool("all", false, "dump all")
	prop := fs.String("prop", "", "property (for relevance-sliced inlining)")
	fs.Parse(args)
	e, err := loadEngine(repoDir(), verifDir()+"/specs")
	if err != nil {
		fmt.Fprintln(os.Stderr, err)
		os.Exit(2)
	}
	var obls []*Obligation
	var fts []*FT
	e.curProp = *prop
	for _, f := range e.allFuncs {
		key := e.funcKey(f)
		match := false
		for _, a := range fs.Args() {
			if strings.HasSuffix(key, "::"+a) || key == a || (strings.Contains(a, "::") && strings.HasSuffix(key, "/"+a)) {
				match = true
			}
		}
		if !match {
			continue
		}
		t0 := time.Now()
		for _, ft := range e.verifyFuncAll(f, e.contractOf(f), *safety) {
			fmt.Printf("== %s %s: %d obligations, %d bytes, %.2fs\n", key, ft.variant, len(ft.obls), ft.decls.Len(), time.Since(t0).Seconds())
			for _, n := range ft.notes {
				fmt.Println("   note:", n)
			}
			for k := range ft.inlined {
				fmt.Println("   inlined:", k)
			}
			for k := range ft.havocked {
				fmt.Println("   havocked:", k)
			}
			fts = append(fts, ft)
			obls = append(obls, ft.obls...)
		}
	}
	for _, m := range e.cerrors {
		fmt.Println("CONTRACT ERROR:", m)
	}
	prelude := ""
	work := *dump
	if work == "" {
		work, _ = os.MkdirTemp("", "govc")
		defer os.RemoveAll(work)
	} else {
		os.MkdirAll(work, 0755)
	}
	stats := &solveStats{byBackend: map[string]int{}}
	discharge(obls, prelude, *timeout, false, work, stats)
	for i, o := range obls {
		status := "ok"
		if !o.ok() {
			status = "FAIL"
		}
		fmt.Printf("%-4s %-8s %-10s %5.2fs %s  [%s] %v\n", status, o.Result, o.Solver, o.Seconds, o.Name, o.Pos, o.Props)
		if *all {
			os.WriteFile(fmt.Sprintf("%s/all%d.smt2", work, i), []byte(o.script(prelude)), 0644)
		}
	}
}

func runGoReplay(section string) int { return 0 }

func init() { extraCmds["mapranges"] = cmdMapRanges }

var extraCmds = map[string]func([]string){}
