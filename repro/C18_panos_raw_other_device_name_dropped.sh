#!/bin/bash
# C18 defect (repaired by the "fix:" commit recorded in known-findings.txt):
# PAN-OS raw file whose <devices><entry name=...> differs from the name in the
# Netspoc code. processVsysPairs returns the error "Different names in <device>
# of XML" before merging anything, (*PanConfig).MergeSpoc ignored that result:
# the whole raw part (here rule raw1) was dropped without any message and drc
# reported an unchanged device with exit status 0.
# Exit 0 = the clash is reported (repaired tree), exit 1 = defect present.
export GOFLAGS=-mod=mod GOPROXY=off GOSUMDB=off GOTOOLCHAIN=local
REPO=${GOVC_REPO:-/repo}
T=$(mktemp -d); trap 'rm -rf $T' EXIT
(cd $REPO/go && go build -o $T/drc ./cmd/drc) || exit 2
mkdir -p $T/code
cat > $T/device <<'EOC'
<config><devices>
 <entry name="localhost.localdomain">
  <vsys><entry name="vsys2"><rulebase><security><rules></rules></security></rulebase></entry></vsys>
 </entry>
</devices></config>
EOC
cp $T/device $T/code/router
cat > $T/code/router.raw <<'EOC'
<config><devices>
 <entry name="otherbox">
  <vsys><entry name="vsys2"><rulebase><security><rules>
<entry name="raw1">
  <action>allow</action>
  <from><member>z1</member></from>
  <to><member>z2</member></to>
  <source><member>any</member></source>
  <destination><member>any</member></destination>
  <service><member>any</member></service>
  <application><member>any</member></application>
  <rule-type>interzone</rule-type>
</entry>
</rules></security></rulebase></entry></vsys>
 </entry>
</devices></config>
EOC
echo '{"model":"PAN-OS","name_list":["router"],"ip_list":["10.1.13.33"]}' > $T/code/router.info
cd $T
OUT=$(./drc -q device code/router 2>&1); ST=$?
echo "exit status $ST"; echo "$OUT" | head -3
if [ $ST -ne 0 ] && echo "$OUT" | grep -q "Different names in <device>"; then
  echo "name clash of the raw part is reported"
  exit 0
fi
echo "DEFECT: raw rule raw1 silently dropped"
exit 1
