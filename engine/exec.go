package main

import (
	"fmt"
	"go/constant"
	"go/token"
	"go/types"
	"sort"
	"strings"

	"golang.org/x/tools/go/ssa"
)

// frame: one activation (top-level function or inlined callee)
type frame struct {
	ft     *FT
	fn     *ssa.Function
	vals   map[ssa.Value]Val
	parent *frame
	depth  int
	// results of the activation
	exits  []exitEdge
	xexits []exitEdge
	loops  *loopInfo
	fc     *FuncContract
	lets   map[string]SVal
	entry  *State // state at entry (for old())
	prefix string // name prefix for obligations when inlined
	blockReach map[*ssa.BasicBlock]string
	blockState map[*ssa.BasicBlock]*State // state at block entry (after phis/havoc)
	inExc  bool
	havocExceptional bool // havoc for an exceptional edge (stable-on-return ghosts are not stable)
	inDeferred int // >0 while a deferred call of this frame is being executed
	curLoopEntryPhis map[*ssa.Phi]Val
	curIterState *State // while a variant is evaluated: state at the head of the current iteration
	curIterPhis  map[*ssa.Phi]Val
	curLoopEntry *State // while a loop invariant is evaluated: state at entry of that loop
	loopOwnWrites map[string]int // write set of the loop's own (non-call) instructions, set by loopModSet
	loopCovers map[*loop]*loopCover
	loopCoverOrder []*loop
}

type exitEdge struct {
	cond    string
	st      *State
	results []Val
	block   *ssa.BasicBlock
}

type inEdge struct {
	cond string
	st   *State
	from *ssa.BasicBlock
}

func (fr *frame) get(v ssa.Value) Val {
	if x, ok := fr.vals[v]; ok {
		return x
	}
	ft := fr.ft
	u := ft.e.u
	switch c := v.(type) {
	case *ssa.Const:
		return ft.constVal(c)
	case *ssa.Global:
		// address of a global
		t := c.Type().(*types.Pointer).Elem()
		pkg := ""
		if c.Pkg != nil {
			pkg = c.Pkg.Pkg.Path()
		}
		h, s := u.globalHeap(pkg, c.Name(), t)
		return Val{LV: &LValue{Heap: h, Typ: t, Sort: s}}
	case *ssa.Function:
		return Val{T: Term{ft.e.funcRef(c), SRef}, Clo: &Closure{Fn: c}}
	case *ssa.Builtin:
		return Val{Bad: "builtin"}
	case *ssa.FreeVar, *ssa.Parameter:
		panic(fmt.Sprintf("unbound %s %s in %s", v.Name(), v.Type(), fr.fn))
	}
	panic(fmt.Sprintf("no value for %s (%T) in %s", v.Name(), v, fr.fn))
}

func (e *Engine) funcRef(f *ssa.Function) string {
	name := "fn$" + mangle(f.String())
	e.u.declFun(name, fmt.Sprintf("(declare-const %s Ref)", name))
	e.u.axiom(not(eq(name, "null")))
	return name
}

func (ft *FT) constVal(c *ssa.Const) Val {
	u := ft.e.u
	t := c.Type()
	s := u.sortOf(t)
	if c.Value == nil {
		return Val{T: u.zero(t)}
	}
	switch s {
	case SInt:
		if i, ok := constant.Int64Val(constant.ToInt(c.Value)); ok {
			return Val{T: Term{intLit(i), SInt}}
		}
		if ui, ok := constant.Uint64Val(constant.ToInt(c.Value)); ok {
			return Val{T: Term{fmt.Sprintf("%d", ui), SInt}}
		}
	case SBool:
		return Val{T: Term{fmt.Sprint(constant.BoolVal(c.Value)), SBool}}
	case SStr:
		return Val{T: u.strLit(constant.StringVal(c.Value))}
	case SReal:
		f, _ := constant.Float64Val(c.Value)
		return Val{T: Term{fmt.Sprintf("%f", f), SReal}}
	}
	return Val{T: Term{ft.fresh("const", s), s}}
}

// term returns the SMT term of a value, materialising unknowns.
func (fr *frame) term(v ssa.Value) Term {
	x := fr.get(v)
	return fr.ft.termOf(x, v.Type())
}

func (ft *FT) termOf(x Val, t types.Type) Term {
	if x.T.S != "" {
		return x.T
	}
	if x.LV != nil && x.LV.Obj != "" {
		return Term{x.LV.Obj, SRef}
	}
	s := ft.e.u.sortOf(t)
	if s == "Tuple" {
		panic("termOf tuple")
	}
	ft.note("unmodelled value of type %s (%s)", t, x.Bad)
	return Term{ft.fresh("unk", s), s}
}

func posString(fset *token.FileSet, p token.Pos) string {
	if !p.IsValid() {
		return "-"
	}
	pp := fset.Position(p)
	f := pp.Filename
	if i := strings.Index(f, "/go/"); i >= 0 {
		f = f[i+4:]
	}
	return fmt.Sprintf("%s:%d", f, pp.Line)
}

func (fr *frame) oblig(kind string, props []string, pos token.Pos, text, reach, goal string) *Obligation {
	ft := fr.ft
	e := ft.e
	srcLine := e.sourceLine(pos)
	fname := fr.fn.RelString(nil)
	fname = strings.ReplaceAll(fname, repoPkgPrefix, "")
	base := fmt.Sprintf("%s/%s/%s", fname, kind, text)
	if fr.prefix != "" {
		base = fr.prefix + ">" + base
	}
	if ft.variant != "" {
		base = "[" + ft.variant + "]" + base
	}
	ft.occ[base]++
	name := base
	if n := ft.occ[base]; n > 1 {
		name = fmt.Sprintf("%s#%d", base, n)
	}
	o := &Obligation{Name: name, Kind: kind, Props: props, Func: fname, Pos: posString(e.fset, pos),
		Text: text, Goal: goal, Reach: reach, Prefix: ft.decls.Len(), ft: ft, SrcLine: srcLine}
	ft.obls = append(ft.obls, o)
	return o
}

// execBody runs the body of fr.fn from the given entry state.
func (fr *frame) execBody(st0 *State, reach0 string) {
	fn := fr.fn
	if fr.loops == nil {
		fr.loops = findLoops(fn)
	}
	li := fr.loops
	fr.blockReach = map[*ssa.BasicBlock]string{}
	fr.blockState = map[*ssa.BasicBlock]*State{}
	in := map[*ssa.BasicBlock][]inEdge{}
	in[fn.Blocks[0]] = []inEdge{{reach0, st0, nil}}
	var xedges []inEdge // exceptional edges (throw points)
	for _, b := range li.order {
		if b == fn.Recover {
			continue // handled after exceptional exit
		}
		edges := in[b]
		if len(edges) == 0 {
			continue
		}
		fr.execBlock(b, edges, in, &xedges)
	}
	fr.finishExceptional(xedges, in)
}

func (fr *frame) mergeEdges(edges []inEdge, label string) (string, *State) {
	ft := fr.ft
	if len(edges) == 1 {
		return edges[0].cond, edges[0].st.clone()
	}
	var conds []string
	for _, e := range edges {
		conds = append(conds, e.cond)
	}
	reach := ft.define("reach_"+label, SBool, or(conds...))
	st := &State{heaps: map[string]string{}}
	names := map[string]bool{}
	for _, e := range edges {
		for k := range e.st.heaps {
			names[k] = true
		}
	}
	var keys []string
	for k := range names {
		keys = append(keys, k)
	}
	sort.Strings(keys)
	for _, k := range keys {
		raw := ft.rawHeap(edges[len(edges)-1].st, k)
		same := true
		for _, e := range edges {
			if ft.rawHeap(e.st, k) != raw {
				same = false
			}
		}
		if same {
			if !strings.HasPrefix(raw, "\x00I") {
				st.heaps[k] = raw
			}
			continue
		}
		// lazily merged value
		k := k
		raws := make([]string, len(edges))
		conds := make([]string, len(edges))
		for i, e := range edges {
			raws[i] = ft.rawHeap(e.st, k)
			conds[i] = e.cond
		}
		st.heaps[k] = ft.lazy(func() string {
			t := ft.forceRaw(raws[len(raws)-1])
			for i := len(raws) - 2; i >= 0; i-- {
				t = ite(conds[i], ft.forceRaw(raws[i]), t)
			}
			return ft.define(k, ft.e.u.heaps[k], t)
		})
	}
	// defer stacks: one must be a prefix of the other (conditionally registered
	// defers carry their own condition)
	st.defers = edges[0].st.defers
	for _, e := range edges[1:] {
		a, b := st.defers, e.st.defers
		if len(b) > len(a) {
			a, b = b, a
		}
		for i := range b {
			if a[i] != b[i] {
				ft.note("defer stacks differ at join in %s: not modelled", fr.fn)
			}
		}
		st.defers = a
	}
	return reach, st
}

func (fr *frame) execBlock(b *ssa.BasicBlock, edges []inEdge, in map[*ssa.BasicBlock][]inEdge, xedges *[]inEdge) {
	ft := fr.ft
	li := fr.loops
	label := fmt.Sprintf("%s_b%d", sanitize(fr.fn.Name()), b.Index)
	var reach string
	var st *State
	if lp := li.headers[b]; lp != nil {
		reach, st = fr.enterLoop(lp, edges, label)
	} else {
		reach, st = fr.mergeEdges(edges, label)
		reach = ft.define("reach_"+label, SBool, reach)
		// phis
		for _, ins := range b.Instrs {
			phi, ok := ins.(*ssa.Phi)
			if !ok {
				break
			}
			fr.vals[phi] = fr.phiValue(phi, edges)
		}
	}
	fr.blockReach[b] = reach
	fr.blockState[b] = st
	for _, ins := range b.Instrs {
		if _, ok := ins.(*ssa.Phi); ok {
			continue
		}
		switch t := ins.(type) {
		case *ssa.If:
			c := fr.term(t.Cond).S
			fr.addEdge(b, b.Succs[0], and(reach, c), st, in)
			fr.addEdge(b, b.Succs[1], and(reach, not(c)), st, in)
			return
		case *ssa.Jump:
			fr.addEdge(b, b.Succs[0], reach, st, in)
			return
		case *ssa.Return:
			var res []Val
			for _, r := range t.Results {
				v := fr.get(r)
				if v.T.S == "" && v.LV == nil && v.Clo == nil && v.Tuple == nil {
					v = Val{T: fr.term(r)}
				}
				res = append(res, v)
			}
			fr.exits = append(fr.exits, exitEdge{reach, st, res, b})
			return
		case *ssa.Panic:
			// explicit panic: exceptional edge
			pv := fr.term(t.X)
			xs := st.clone()
			ft.setHeap(xs, panickingHeap, "true")
			ft.setHeap(xs, panicvalHeap, pv.S)
			if ft.e.wantSafety(fr) {
				fr.oblig("safe/panic", []string{"C20"}, t.Pos(), ft.e.lineText(t.Pos()), reach, "false")
			}
			*xedges = append(*xedges, inEdge{reach, xs, b})
			return
		default:
			reach = fr.execInstr(ins, st, reach, xedges)
			if reach == "false" {
				return
			}
		}
	}
}

func (fr *frame) addEdge(from, to *ssa.BasicBlock, cond string, st *State, in map[*ssa.BasicBlock][]inEdge) {
	if cond == "false" {
		return
	}
	li := fr.loops
	if lp := li.headers[to]; lp != nil && lp.body[from] && li.isBackEdge(from, to) {
		fr.checkLoopStep(lp, from, cond, st)
		return
	}
	in[to] = append(in[to], inEdge{cond, st, from})
}

func (fr *frame) phiValue(phi *ssa.Phi, edges []inEdge) Val {
	ft := fr.ft
	b := phi.Block()
	s := ft.e.u.sortOf(phi.Type())
	var t string
	first := true
	var clo *Closure
	cloSame := true
	var alts []CloAlt
	altsOK := true
	for i := len(edges) - 1; i >= 0; i-- {
		e := edges[i]
		idx := -1
		for j, p := range b.Preds {
			if p == e.from {
				idx = j
				// there may be several edges from same pred (If with both succs same): same value
				break
			}
		}
		if idx < 0 {
			continue
		}
		pv := fr.get(phi.Edges[idx])
		if first {
			clo = pv.Clo
		} else if pv.Clo != clo {
			cloSame = false
		}
		switch {
		case pv.Clo != nil:
			alts = append(alts, CloAlt{e.cond, pv.Clo})
		case len(pv.Alts) > 0:
			for _, a := range pv.Alts {
				alts = append(alts, CloAlt{and(e.cond, a.Cond), a.Clo})
			}
		default:
			altsOK = false
		}
		v := ft.termOf(pv, phi.Type()).S
		if first {
			t = v
			first = false
		} else {
			t = ite(e.cond, v, t)
		}
	}
	if first {
		return Val{T: Term{ft.fresh("phi", s), s}}
	}
	name := phi.Comment
	if name == "" {
		name = phi.Name()
	}
	r := Val{T: Term{ft.define(name, s, t), s}}
	if cloSame && clo != nil {
		r.Clo = clo
	} else if altsOK && len(alts) > 1 && len(alts) <= 8 {
		r.Alts = alts
	}
	return r
}

// finishExceptional merges all throw points, runs the deferred calls and
// either propagates the panic or continues in the Recover block.
func (fr *frame) finishExceptional(xedges []inEdge, in map[*ssa.BasicBlock][]inEdge) {
	if len(xedges) == 0 {
		return
	}
	ft := fr.ft
	// group by defer stack identity (length + last element)
	groups := map[string][]inEdge{}
	var order []string
	for _, e := range xedges {
		key := fmt.Sprintf("%d", len(e.st.defers))
		if n := len(e.st.defers); n > 0 {
			key += fmt.Sprintf(":%p", e.st.defers[n-1])
		}
		if _, ok := groups[key]; !ok {
			order = append(order, key)
		}
		groups[key] = append(groups[key], e)
	}
	for _, key := range order {
		g := groups[key]
		reach, st := fr.mergeEdges(g, "xexit")
		reach = ft.define("xreach", SBool, reach)
		if len(st.defers) == 0 {
			fr.xexits = append(fr.xexits, exitEdge{reach, st, nil, nil})
			continue
		}
		// run defers LIFO; a panic inside a deferred call replaces the current one.
		defers := st.defers
		st.defers = nil
		fr.inExc = true
		for i := len(defers) - 1; i >= 0; i-- {
			d := defers[i]
			var sub []inEdge
			reach2 := fr.runDeferred(d, st, reach, &sub)
			// throw inside deferred call: still panicking; merge back
			if len(sub) > 0 {
				all := append([]inEdge{}, sub...)
				if reach2 != "false" {
					all = append(all, inEdge{reach2, st, nil})
				}
				reach, st = fr.mergeEdges(all, "xdefer")
				reach = ft.define("xreach", SBool, reach)
			} else {
				reach = reach2
			}
		}
		fr.inExc = false
		stillPanicking := ft.heapTerm(st, panickingHeap)
		fr.xexits = append(fr.xexits, exitEdge{and(reach, stillPanicking), st, nil, nil})
		rec := and(reach, not(stillPanicking))
		if rec != "false" {
			if fr.fn.Recover != nil {
				// continue in recover block
				var xe []inEdge
				in2 := map[*ssa.BasicBlock][]inEdge{}
				fr.execBlock(fr.fn.Recover, []inEdge{{rec, st.clone(), nil}}, in2, &xe)
			} else {
				var res []Val
				rs := fr.fn.Signature.Results()
				for i := 0; i < rs.Len(); i++ {
					res = append(res, Val{T: ft.e.u.zero(rs.At(i).Type())})
				}
				fr.exits = append(fr.exits, exitEdge{rec, st, res, nil})
			}
		}
	}
}

// execInstr executes a non-terminator instruction; returns the reach
// condition for the continuation.
func (fr *frame) execInstr(ins ssa.Instruction, st *State, reach string, xedges *[]inEdge) string {
	ft := fr.ft
	u := ft.e.u
	switch t := ins.(type) {
	case *ssa.DebugRef:
		return reach
	case *ssa.Alloc:
		elem := t.Type().(*types.Pointer).Elem()
		name := t.Comment
		if name == "" {
			name = t.Name()
		}
		r := ft.newRef(st, name, reach)
		switch et := elem.Underlying().(type) {
		case *types.Struct:
			ft.storeStruct(st, r, elem, u.zero(elem).S)
			fr.vals[t] = Val{T: Term{r, SRef}}
		case *types.Array:
			h, es := u.elemHeap(et.Elem())
			zero := fmt.Sprintf("((as const (Array Int %s)) %s)", es, u.zero(et.Elem()).S)
			ft.setHeap(st, h, store(ft.heapTerm(st, h), r, zero))
			fr.vals[t] = Val{T: Term{r, SRef}}
		default:
			h, _ := u.cellHeap(elem)
			ft.setHeap(st, h, store(ft.heapTerm(st, h), r, u.zero(elem).S))
			fr.vals[t] = Val{T: Term{r, SRef}}
		}
	case *ssa.FieldAddr:
		base := fr.get(t.X)
		pt := t.X.Type().Underlying().(*types.Pointer).Elem()
		fr.vals[t] = fr.fieldAddr(base, pt, t.Field, st, reach, t.Pos(), t.X)
	case *ssa.Field:
		x := fr.term(t.X)
		si := u.structOf(t.X.Type())
		f := si.fields[t.Field]
		fr.vals[t] = Val{T: Term{ft.define(f.name, f.sort, sx("f$"+si.name+"$"+f.name, x.S)), f.sort}}
	case *ssa.IndexAddr:
		fr.vals[t] = fr.indexAddr(t, st, reach)
	case *ssa.Index:
		// array or string-typed? (Index is for arrays and type-param strings)
		x := fr.term(t.X)
		i := fr.term(t.Index)
		switch xt := t.X.Type().Underlying().(type) {
		case *types.Array:
			if ft.e.wantSafety(fr) {
				fr.oblig("safe/index", []string{"C20"}, t.Pos(), ft.e.lineText(t.Pos()), reach,
					and(sx("<=", "0", i.S), sx("<", i.S, fmt.Sprint(xt.Len()))))
			}
			s := u.sortOf(xt.Elem())
			fr.vals[t] = Val{T: Term{ft.define("idx", s, sel(x.S, i.S)), s}}
		default:
			fr.stringIndex(t, x, i, st, reach, t.Pos())
		}
	case *ssa.Lookup:
		fr.lookup(t, st, reach)
	case *ssa.UnOp:
		fr.unop(t, st, reach)
	case *ssa.BinOp:
		fr.vals[t] = Val{T: fr.binop(t, reach)}
	case *ssa.Store:
		addr := fr.get(t.Addr)
		v := fr.get(t.Val)
		fr.siteAsserts(t, nil, st, reach, false)
		fr.store(addr, t.Addr, v, t.Val.Type(), st, reach, t.Pos())
		fr.siteAsserts(t, nil, st, reach, true)
	case *ssa.MapUpdate:
		fr.siteAsserts(t, nil, st, reach, false)
		defer fr.siteAsserts(t, nil, st, reach, true)
		m := fr.term(t.Map)
		mt := t.Map.Type().Underlying().(*types.Map)
		dom, val, _, _ := u.mapHeaps(mt)
		k := fr.term(t.Key)
		v := fr.term(t.Value)
		if ft.e.wantSafety(fr) {
			fr.oblig("safe/mapwrite", []string{"C20"}, t.Pos(), ft.e.lineText(t.Pos()), reach, not(eq(m.S, "null")))
		}
		fr.escape(st, Val{T: v}, 0)
		fr.escape(st, Val{T: k}, 0)
		d := ft.heapTerm(st, dom)
		ft.setHeap(st, dom, store(d, m.S, store(sel(d, m.S), k.S, "true")))
		vv := ft.heapTerm(st, val)
		ft.setHeap(st, val, store(vv, m.S, store(sel(vv, m.S), k.S, v.S)))
	case *ssa.MakeMap:
		mt := t.Type().Underlying().(*types.Map)
		dom, _, ks, _ := u.mapHeaps(mt)
		r := ft.newRef(st, "map", reach)
		d := ft.heapTerm(st, dom)
		ft.setHeap(st, dom, store(d, r, fmt.Sprintf("((as const (Array %s Bool)) false)", ks)))
		fr.vals[t] = Val{T: Term{r, SRef}}
	case *ssa.MakeSlice:
		st2 := t.Type().Underlying().(*types.Slice)
		h, es := u.elemHeap(st2.Elem())
		r := ft.newRef(st, "mkslice", reach)
		ln := fr.term(t.Len)
		cp := fr.term(t.Cap)
		zero := fmt.Sprintf("((as const (Array Int %s)) %s)", es, u.zero(st2.Elem()).S)
		ft.setHeap(st, h, store(ft.heapTerm(st, h), r, zero))
		fr.vals[t] = Val{T: Term{ft.define("mkslice", SSlice, sx("mk-slice", r, "0", ln.S, cp.S)), SSlice}}
	case *ssa.MakeClosure:
		fn := t.Fn.(*ssa.Function)
		var bs []Val
		for _, b := range t.Bindings {
			bs = append(bs, fr.get(b))
		}
		r := ft.newRef(st, "closure", reach)
		fr.vals[t] = Val{T: Term{r, SRef}, Clo: &Closure{Fn: fn, Bindings: bs}}
	case *ssa.MakeInterface:
		fr.vals[t] = fr.makeInterface(t, st, reach)
	case *ssa.ChangeInterface:
		fr.vals[t] = fr.get(t.X)
	case *ssa.ChangeType:
		fr.vals[t] = fr.get(t.X)
	case *ssa.Convert:
		fr.convert(t, st, reach)
	case *ssa.SliceToArrayPointer:
		x := fr.term(t.X)
		fr.vals[t] = Val{T: Term{ft.fresh("s2ap", SRef), SRef}}
		_ = x
		ft.note("SliceToArrayPointer approximated in %s", fr.fn)
	case *ssa.Slice:
		fr.slice(t, st, reach)
	case *ssa.Extract:
		tv := fr.get(t.Tuple)
		if tv.Tuple != nil && t.Index < len(tv.Tuple) {
			fr.vals[t] = tv.Tuple[t.Index]
		} else {
			s := u.sortOf(t.Type())
			fr.vals[t] = Val{T: Term{ft.fresh("extract", s), s}}
		}
	case *ssa.TypeAssert:
		fr.typeAssert(t, st, reach)
	case *ssa.Range:
		fr.vals[t] = Val{T: fr.term(t.X)}
		if mt, ok := t.X.Type().Underlying().(*types.Map); ok {
			// ghost set of the keys this iteration has produced so far
			h, ks := fr.visitedHeap(t, mt)
			ft.setHeap(st, h, fmt.Sprintf("((as const (Array %s Bool)) false)", ks))
		}
	case *ssa.Next:
		fr.next(t, st, reach)
	case *ssa.Call:
		var args []Val
		for _, a := range t.Call.Args {
			args = append(args, fr.get(a))
		}
		var fnv Val
		if !t.Call.IsInvoke() {
			if _, isB := t.Call.Value.(*ssa.Builtin); !isB {
				fnv = fr.get(t.Call.Value)
			}
		} else {
			fnv = fr.get(t.Call.Value)
		}
		fr.siteAsserts(t, args, st, reach, false)
		r2 := fr.doCall(t, &t.Call, fnv, args, st, reach, xedges, t.Pos())
		if r2 != "false" {
			fr.siteAsserts(t, args, st, r2, true)
		}
		return r2
	case *ssa.Defer:
		var args []Val
		for _, a := range t.Call.Args {
			args = append(args, fr.get(a))
		}
		var fnv Val
		if _, isB := t.Call.Value.(*ssa.Builtin); !isB {
			fnv = fr.get(t.Call.Value)
		}
		nd := append(append([]*deferred{}, st.defers...), &deferred{call: &t.Call, args: args, fnv: fnv, pos: t.Pos(), cond: reach})
		st.defers = nd
	case *ssa.RunDefers:
		defers := st.defers
		st.defers = nil
		for i := len(defers) - 1; i >= 0; i-- {
			reach = fr.runDeferred(defers[i], st, reach, xedges)
		}
	case *ssa.Go, *ssa.Send, *ssa.Select, *ssa.MakeChan:
		ft.note("concurrency construct %T in %s: out of subset", ins, fr.fn)
		ft.havocAll(st)
		if v, ok := ins.(ssa.Value); ok {
			fr.vals[v] = Val{Bad: "concurrency"}
		}
	default:
		ft.note("unsupported instruction %T in %s", ins, fr.fn)
		if v, ok := ins.(ssa.Value); ok {
			fr.vals[v] = Val{Bad: fmt.Sprintf("%T", ins)}
		}
	}
	return reach
}

func (ft *FT) havocAll(st *State) {
	for _, h := range sortedKeys(ft.e.u.heaps) {
		if h == allocHeap {
			continue
		}
		ft.havocHeap(st, h)
	}
}

func (fr *frame) nilCheck(ref string, pos token.Pos, reach string, what ssa.Value) {
	ft := fr.ft
	if !ft.e.wantSafety(fr) {
		return
	}
	// receivers/params/allocs known non-nil are skipped syntactically
	switch what.(type) {
	case *ssa.Alloc, *ssa.FieldAddr, *ssa.IndexAddr, *ssa.Global:
		return
	}
	fr.oblig("safe/nil", []string{"C20"}, pos, ft.e.lineText(pos), reach, not(eq(ref, "null")))
}

func (fr *frame) fieldAddr(base Val, structT types.Type, idx int, st *State, reach string, pos token.Pos, bx ssa.Value) Val {
	ft := fr.ft
	u := ft.e.u
	si := u.structOf(structT)
	f := si.fields[idx]
	if base.LV != nil && base.LV.Obj == "" {
		// field inside a struct value stored in an element/map/cell: extend path
		lv := *base.LV
		lv.Path = append(append([]pathEl{}, lv.Path...), pathEl{si, idx})
		lv.Typ = f.typ
		lv.Sort = f.sort
		return Val{LV: &lv}
	}
	ref := ft.termOf(base, types.NewPointer(structT)).S
	fr.nilCheck(ref, pos, reach, bx)
	if isStruct(f.typ) {
		sub := ft.define(f.name, SRef, sx(u.subFun(structT, idx), ref))
		return Val{T: Term{sub, SRef}}
	}
	h, s := u.fieldHeap(structT, idx)
	return Val{LV: &LValue{Heap: h, Keys: []string{ref}, Typ: f.typ, Sort: s}}
}

func (fr *frame) indexAddr(t *ssa.IndexAddr, st *State, reach string) Val {
	ft := fr.ft
	u := ft.e.u
	i := fr.term(t.Index)
	switch xt := t.X.Type().Underlying().(type) {
	case *types.Slice:
		x := fr.term(t.X)
		h, es := u.elemHeap(xt.Elem())
		if ft.e.wantSafety(fr) {
			fr.oblig("safe/index", []string{"C20"}, t.Pos(), ft.e.lineText(t.Pos()), reach,
				and(sx("<=", "0", i.S), sx("<", i.S, sx("slen", x.S))))
		}
		idx := ft.define("ix", SInt, sx("ix", x.S, i.S))
		return Val{LV: &LValue{Heap: h, Keys: []string{sx("sbase", x.S), idx}, Typ: xt.Elem(), Sort: es}}
	case *types.Pointer:
		at := xt.Elem().Underlying().(*types.Array)
		xv := fr.get(t.X)
		h, es := u.elemHeap(at.Elem())
		if ft.e.wantSafety(fr) {
			fr.oblig("safe/index", []string{"C20"}, t.Pos(), ft.e.lineText(t.Pos()), reach,
				and(sx("<=", "0", i.S), sx("<", i.S, fmt.Sprint(at.Len()))))
		}
		if xv.LV != nil && xv.LV.Obj == "" {
			// pointer to an array held by value inside something else
			lv := *xv.LV
			_ = lv
			ft.note("IndexAddr on embedded array in %s", fr.fn)
			return Val{Bad: "embedded array"}
		}
		ref := ft.termOf(xv, t.X.Type()).S
		return Val{LV: &LValue{Heap: h, Keys: []string{ref, i.S}, Typ: at.Elem(), Sort: es}}
	}
	ft.note("IndexAddr on %s", t.X.Type())
	return Val{Bad: "indexaddr"}
}

func (fr *frame) stringIndex(t ssa.Value, x, i Term, st *State, reach string, pos token.Pos) {
	ft := fr.ft
	u := ft.e.u
	u.declFun("strbyte", "(declare-fun strbyte (Str Int) Int)")
	if ft.e.wantSafety(fr) {
		fr.oblig("safe/index", []string{"C20"}, pos, ft.e.lineText(pos), reach,
			and(sx("<=", "0", i.S), sx("<", i.S, sx("strlen", x.S))))
	}
	fr.vals[t] = Val{T: Term{ft.define("byte", SInt, sx("strbyte", x.S, i.S)), SInt}}
}

func (fr *frame) lookup(t *ssa.Lookup, st *State, reach string) {
	ft := fr.ft
	u := ft.e.u
	x := fr.term(t.X)
	k := fr.term(t.Index)
	switch xt := t.X.Type().Underlying().(type) {
	case *types.Map:
		dom, val, _, vs := u.mapHeaps(xt)
		in := ft.define("inmap", SBool, and(not(eq(x.S, "null")), sel(sel(ft.heapTerm(st, dom), x.S), k.S)))
		v := ft.define("mapval", vs, ite(in, sel(sel(ft.heapTerm(st, val), x.S), k.S), u.zero(xt.Elem()).S))
		vt := Term{v, vs}
		ft.assumeAllocatedIn(st, reach, vt, val)
		if t.CommaOk {
			fr.vals[t] = Val{Tuple: []Val{{T: vt}, {T: Term{in, SBool}}}}
		} else {
			fr.vals[t] = Val{T: vt}
		}
	default:
		fr.stringIndex(t, x, k, st, reach, t.Pos())
	}
}

func (fr *frame) unop(t *ssa.UnOp, st *State, reach string) {
	ft := fr.ft
	u := ft.e.u
	switch t.Op {
	case token.MUL: // load
		addr := fr.get(t.X)
		pt := t.X.Type().Underlying().(*types.Pointer).Elem()
		lv := fr.lvalueOf(addr, pt, t.X, st, reach, t.Pos())
		if lv == nil {
			s := u.sortOf(t.Type())
			fr.vals[t] = Val{T: Term{ft.fresh("load", s), s}}
			return
		}
		v := ft.load(st, lv)
		name := t.Name()
		if a, ok := t.X.(*ssa.Alloc); ok && a.Comment != "" {
			name = a.Comment
		} else if f, ok := t.X.(*ssa.FieldAddr); ok {
			name = u.structOf(f.X.Type().Underlying().(*types.Pointer).Elem()).fields[f.Field].name
		} else if fv, ok := t.X.(*ssa.FreeVar); ok {
			name = fv.Name()
		}
		vt := Term{ft.define(name, v.Sort, v.S), v.Sort}
		ft.assumeAllocatedIn(st, reach, vt, lv.Heap)
		if ft.e.elemNonNil(lv, t.Type()) {
			ft.assume(reach, not(eq(vt.S, "null")))
		}
		fr.vals[t] = Val{T: vt}
		// known closure stored in a cell? track through simple cells
		if addr.T.S != "" {
			if c := fr.cellClosure(addr.T.S); c != nil {
				fr.vals[t] = Val{T: vt, Clo: c}
			}
		}
	case token.NOT:
		x := fr.term(t.X)
		fr.vals[t] = Val{T: Term{not(x.S), SBool}}
	case token.SUB:
		x := fr.term(t.X)
		fr.vals[t] = Val{T: Term{sx("-", x.S), x.Sort}}
	case token.XOR:
		x := fr.term(t.X)
		u.declFun("bitnot", "(declare-fun bitnot (Int) Int)")
		fr.vals[t] = Val{T: Term{sx("bitnot", x.S), SInt}}
	default:
		ft.note("unsupported unop %s in %s", t.Op, fr.fn)
		s := u.sortOf(t.Type())
		fr.vals[t] = Val{T: Term{ft.fresh("unop", s), s}}
	}
}

// cellClosure: closures stored into local cells (e.g. recursive closures
// "var f func(); f = func(){...}") are tracked by cell ref name.
func (fr *frame) cellClosure(cell string) *Closure {
	for f := fr; f != nil; f = f.parent {
		if f.ft.e.cellClos[f.ft] != nil {
			if c, ok := f.ft.e.cellClos[f.ft][cell]; ok {
				return c
			}
		}
		break
	}
	return nil
}

// lvalueOf turns a pointer value into an lvalue designating the pointee.
func (fr *frame) lvalueOf(addr Val, pointee types.Type, av ssa.Value, st *State, reach string, pos token.Pos) *LValue {
	ft := fr.ft
	u := ft.e.u
	if addr.LV != nil {
		return addr.LV
	}
	if addr.T.S == "" {
		ft.note("unmodelled pointer %s in %s", av.Name(), fr.fn)
		return nil
	}
	ref := addr.T.S
	fr.nilCheck(ref, pos, reach, av)
	switch pt := pointee.Underlying().(type) {
	case *types.Struct:
		return &LValue{Obj: ref, Typ: pointee, Sort: u.sortOf(pointee)}
	case *types.Array:
		// whole array object
		h, es := u.elemHeap(pt.Elem())
		return &LValue{Heap: h, Keys: []string{ref}, Typ: pointee, Sort: arraySort(SInt, es)}
	}
	h, s := u.cellHeap(pointee)
	return &LValue{Heap: h, Keys: []string{ref}, Typ: pointee, Sort: s}
}

func (fr *frame) store(addr Val, av ssa.Value, v Val, vt types.Type, st *State, reach string, pos token.Pos) {
	ft := fr.ft
	pt := av.Type().Underlying().(*types.Pointer).Elem()
	lv := fr.lvalueOf(addr, pt, av, st, reach, pos)
	if lv == nil {
		ft.note("store through unmodelled pointer in %s: all heaps havocked", fr.fn)
		ft.havocAll(st)
		return
	}
	val := ft.termOf(v, vt)
	if ft.e.wantSafety(fr) && ft.e.elemNonNil(lv, vt) {
		if _, fresh := vv(v, val); !fresh {
			fr.oblig("safe/nilstore", []string{"C20"}, pos, ft.e.lineText(pos), reach, not(eq(val.S, "null")))
		}
	}
	ft.storeLV(st, lv, val)
	if v.Clo != nil && addr.T.S != "" {
		if ft.e.cellClos[ft] == nil {
			ft.e.cellClos[ft] = map[string]*Closure{}
		}
		ft.e.cellClos[ft][addr.T.S] = v.Clo
	}
}

func rangeOfBasic(b *types.Basic) (lo, hi string, ok bool) {
	switch b.Kind() {
	case types.Uint8:
		return "0", "255", true
	case types.Uint16:
		return "0", "65535", true
	case types.Uint32:
		return "0", "4294967295", true
	case types.Uint, types.Uint64, types.Uintptr:
		return "0", "18446744073709551615", true
	case types.Int8:
		return "(- 128)", "127", true
	case types.Int16:
		return "(- 32768)", "32767", true
	case types.Int32:
		return "(- 2147483648)", "2147483647", true
	case types.Int, types.Int64:
		return "(- 9223372036854775808)", "9223372036854775807", true
	}
	return "", "", false
}

func (fr *frame) binop(t *ssa.BinOp, reach string) Term {
	ft := fr.ft
	u := ft.e.u
	x := fr.term(t.X)
	y := fr.term(t.Y)
	name := t.Name()
	switch t.Op {
	case token.EQL, token.NEQ:
		var c string
		if x.Sort == SSlice {
			// only comparison with nil is legal
			other := y
			if x.S == "nilslice" {
				other = y
			} else {
				other = x
			}
			c = eq(sx("sbase", other.S), "null")
		} else {
			c = eq(x.S, y.S)
		}
		if t.Op == token.NEQ {
			c = not(c)
		}
		return Term{ft.define(name, SBool, c), SBool}
	case token.LSS, token.LEQ, token.GTR, token.GEQ:
		op := map[token.Token]string{token.LSS: "<", token.LEQ: "<=", token.GTR: ">", token.GEQ: ">="}[t.Op]
		if x.Sort == SStr {
			u.declFun("strlt", "(declare-fun strlt (Str Str) Bool)")
			u.axiom("(forall ((a Str) (b Str)) (! (=> (strlt a b) (not (strlt b a))) :pattern ((strlt a b))))")
			u.axiom("(forall ((a Str)) (! (not (strlt a a)) :pattern ((strlt a a))))")
			u.axiom("(forall ((a Str) (b Str)) (! (or (strlt a b) (strlt b a) (= a b)) :pattern ((strlt a b))))")
			var c string
			switch t.Op {
			case token.LSS:
				c = sx("strlt", x.S, y.S)
			case token.GTR:
				c = sx("strlt", y.S, x.S)
			case token.LEQ:
				c = not(sx("strlt", y.S, x.S))
			case token.GEQ:
				c = not(sx("strlt", x.S, y.S))
			}
			return Term{ft.define(name, SBool, c), SBool}
		}
		return Term{ft.define(name, SBool, sx(op, x.S, y.S)), SBool}
	case token.ADD:
		if x.Sort == SStr {
			return ft.concat(x, y)
		}
		return fr.wrap(t, sx("+", x.S, y.S), x.Sort)
	case token.SUB:
		return fr.wrap(t, sx("-", x.S, y.S), x.Sort)
	case token.MUL:
		return fr.wrap(t, sx("*", x.S, y.S), x.Sort)
	case token.QUO:
		if x.Sort == SReal {
			return Term{ft.define(name, SReal, sx("/", x.S, y.S)), SReal}
		}
		if ft.e.wantSafety(fr) {
			if _, isConst := t.Y.(*ssa.Const); !isConst {
				fr.oblig("safe/div", []string{"C20"}, t.Pos(), ft.e.lineText(t.Pos()), reach, not(eq(y.S, "0")))
			}
		}
		// Go truncates toward zero
		q := ite(sx(">=", x.S, "0"),
			ite(sx(">", y.S, "0"), sx("div", x.S, y.S), sx("-", sx("div", x.S, sx("-", y.S)))),
			ite(sx(">", y.S, "0"), sx("-", sx("div", sx("-", x.S), y.S)), sx("div", sx("-", x.S), sx("-", y.S))))
		return Term{ft.define(name, SInt, q), SInt}
	case token.REM:
		if ft.e.wantSafety(fr) {
			if _, isConst := t.Y.(*ssa.Const); !isConst {
				fr.oblig("safe/div", []string{"C20"}, t.Pos(), ft.e.lineText(t.Pos()), reach, not(eq(y.S, "0")))
			}
		}
		ay := ite(sx(">=", y.S, "0"), y.S, sx("-", y.S))
		r := ite(sx(">=", x.S, "0"), sx("mod", x.S, ay), sx("-", sx("mod", sx("-", x.S), ay)))
		return Term{ft.define(name, SInt, r), SInt}
	case token.AND, token.OR, token.XOR, token.SHL, token.SHR, token.AND_NOT:
		if x.Sort == SBool {
			switch t.Op {
			case token.AND:
				return Term{and(x.S, y.S), SBool}
			case token.OR:
				return Term{or(x.S, y.S), SBool}
			}
		}
		fn := map[token.Token]string{token.AND: "bitand", token.OR: "bitor", token.XOR: "bitxor", token.SHL: "bitshl", token.SHR: "bitshr", token.AND_NOT: "bitandnot"}[t.Op]
		u.declFun(fn, fmt.Sprintf("(declare-fun %s (Int Int) Int)", fn))
		r := Term{ft.define(name, SInt, sx(fn, x.S, y.S)), SInt}
		if b, ok := t.Type().Underlying().(*types.Basic); ok {
			if lo, hi, ok := rangeOfBasic(b); ok {
				ft.assume("true", and(sx("<=", lo, r.S), sx("<=", r.S, hi)))
			}
		}
		return r
	}
	ft.note("unsupported binop %s in %s", t.Op, fr.fn)
	s := u.sortOf(t.Type())
	return Term{ft.fresh("binop", s), s}
}

// wrap: arithmetic result. Integers are mathematical (assumption listed in
// the evidence); unsigned subtraction etc. is not wrapped.
func (fr *frame) wrap(t *ssa.BinOp, body string, s Sort) Term {
	return Term{fr.ft.define(t.Name(), s, body), s}
}

func (ft *FT) concat(x, y Term) Term {
	u := ft.e.u
	u.declFun("strcat", "(declare-fun strcat (Str Str) Str)")
	u.axiom("(forall ((a Str) (b Str)) (! (= (strlen (strcat a b)) (+ (strlen a) (strlen b))) :pattern ((strcat a b))))")
	emp := u.strLit("")
	u.axiom(fmt.Sprintf("(forall ((a Str)) (! (and (= (strcat a %s) a) (= (strcat %s a) a)) :pattern ((strcat a %s)) :pattern ((strcat %s a))))", emp.S, emp.S, emp.S, emp.S))
	if e, ok := u.lits[""]; ok {
		if x.S == e {
			return y
		}
		if y.S == e {
			return x
		}
	}
	return Term{ft.define("cat", SStr, sx("strcat", x.S, y.S)), SStr}
}

func (fr *frame) makeInterface(t *ssa.MakeInterface, st *State, reach string) Val {
	ft := fr.ft
	u := ft.e.u
	xt := t.X.Type()
	xv := fr.get(t.X)
	id := u.typeID(xt)
	switch xt.Underlying().(type) {
	case *types.Pointer, *types.Map, *types.Signature, *types.Chan:
		x := ft.termOf(xv, xt)
		// typed nil in interface is not modelled (assumption)
		ft.assume(reach, implies(not(eq(x.S, "null")), eq(sx("dyntype", x.S), fmt.Sprint(id))))
		return Val{T: x, Clo: xv.Clo}
	}
	x := ft.termOf(xv, xt)
	box := "box$" + typeName(xt)
	unbox := "unbox$" + typeName(xt)
	u.declFun(box, fmt.Sprintf("(declare-fun %s (%s) Ref)", box, x.Sort))
	u.declFun(unbox, fmt.Sprintf("(declare-fun %s (Ref) %s)", unbox, x.Sort))
	b := ft.define("iface", SRef, sx(box, x.S))
	ft.assume("true", and(not(eq(b, "null")), eq(sx("dyntype", b), fmt.Sprint(id)), eq(sx(unbox, b), x.S)))
	if fr.taintDecls() {
		// C17: a boxed string is as clean as the string; other boxed scalars carry no secret
		if x.Sort == SStr {
			ft.assume("true", eq(sx("spec$cleanAny", b), sx("spec$secretFree", x.S)))
		} else if x.Sort == SInt || x.Sort == SBool {
			ft.assume("true", sx("spec$cleanAny", b))
		}
	}
	return Val{T: Term{b, SRef}}
}

func (fr *frame) typeAssert(t *ssa.TypeAssert, st *State, reach string) {
	ft := fr.ft
	u := ft.e.u
	x := fr.term(t.X)
	at := t.AssertedType
	var ok string
	var val Term
	if _, isIface := at.Underlying().(*types.Interface); isIface {
		impl := "implements$" + typeName(at)
		u.declFun(impl, fmt.Sprintf("(declare-fun %s (Int) Bool)", impl))
		ok = ft.define("ok", SBool, and(not(eq(x.S, "null")), sx(impl, sx("dyntype", x.S))))
		val = x
	} else {
		id := u.typeID(at)
		ok = ft.define("ok", SBool, and(not(eq(x.S, "null")), eq(sx("dyntype", x.S), fmt.Sprint(id))))
		switch at.Underlying().(type) {
		case *types.Pointer, *types.Map, *types.Signature, *types.Chan:
			val = Term{ite(ok, x.S, "null"), SRef}
		default:
			s := u.sortOf(at)
			unbox := "unbox$" + typeName(at)
			box := "box$" + typeName(at)
			u.declFun(box, fmt.Sprintf("(declare-fun %s (%s) Ref)", box, s))
			u.declFun(unbox, fmt.Sprintf("(declare-fun %s (Ref) %s)", unbox, s))
			val = Term{ite(ok, sx(unbox, x.S), u.zero(at).S), s}
		}
	}
	val = Term{ft.define("ta", val.Sort, val.S), val.Sort}
	if t.CommaOk {
		fr.vals[t] = Val{Tuple: []Val{{T: val}, {T: Term{ok, SBool}}}}
		return
	}
	if ft.e.wantSafety(fr) {
		fr.oblig("safe/typeassert", []string{"C20"}, t.Pos(), ft.e.lineText(t.Pos()), reach, ok)
	}
	fr.vals[t] = Val{T: val}
}

func (fr *frame) convert(t *ssa.Convert, st *State, reach string) {
	ft := fr.ft
	u := ft.e.u
	from := t.X.Type().Underlying()
	to := t.Type().Underlying()
	x := fr.term(t.X)
	fs, ts := u.sortOf(from), u.sortOf(to)
	switch {
	case fs == SInt && ts == SInt:
		// value preserving if in range; treat as identity (assumption: no overflow)
		fr.vals[t] = Val{T: x}
	case fs == SStr && ts == SSlice:
		// []byte(s) / []rune(s)
		el := to.(*types.Slice).Elem()
		h, _ := u.elemHeap(el)
		r := ft.newRef(st, "bytes", reach)
		arr := ft.fresh("bytesarr", arraySort(SInt, SInt))
		ft.setHeap(st, h, store(ft.heapTerm(st, h), r, arr))
		isByte := el.Underlying().(*types.Basic).Kind() == types.Uint8
		var ln string
		if isByte {
			ln = sx("strlen", x.S)
			u.declFun("strbyte", "(declare-fun strbyte (Str Int) Int)")
			ft.assume("true", fmt.Sprintf("(forall ((j Int)) (! (=> (and (<= 0 j) (< j %s)) (= (select %s j) (strbyte %s j))) :pattern ((select %s j))))", ln, arr, x.S, arr))
		} else {
			ln = ft.fresh("runelen", SInt)
			ft.assume("true", and(sx("<=", "0", ln), sx("<=", ln, sx("strlen", x.S))))
		}
		fr.vals[t] = Val{T: Term{ft.define("bytes", SSlice, sx("mk-slice", r, "0", ln, ln)), SSlice}}
	case fs == SSlice && ts == SStr:
		el := from.(*types.Slice).Elem()
		if el.Underlying().(*types.Basic).Kind() == types.Uint8 {
			fr.vals[t] = Val{T: ft.bytesStr(st, x)}
		} else {
			h, _ := u.elemHeap(el)
			fn := "str$of$" + typeName(el)
			u.declFun(fn, fmt.Sprintf("(declare-fun %s ((Array Int Int) Int Int) Str)", fn))
			s := ft.define("str", SStr, sx(fn, sel(ft.heapTerm(st, h), sx("sbase", x.S)), sx("soff", x.S), sx("slen", x.S)))
			fr.vals[t] = Val{T: Term{s, SStr}}
		}
	case fs == SInt && ts == SStr:
		u.declFun("str$of$rune", "(declare-fun str$of$rune (Int) Str)")
		fr.vals[t] = Val{T: Term{sx("str$of$rune", x.S), SStr}}
	case fs == ts:
		fr.vals[t] = Val{T: x}
	case fs == SInt && ts == SReal:
		fr.vals[t] = Val{T: Term{sx("to_real", x.S), SReal}}
	case fs == SReal && ts == SInt:
		fr.vals[t] = Val{T: Term{sx("to_int", x.S), SInt}}
	default:
		ft.note("unsupported conversion %s -> %s in %s", from, to, fr.fn)
		fr.vals[t] = Val{T: Term{ft.fresh("conv", ts), ts}}
	}
}

func (fr *frame) slice(t *ssa.Slice, st *State, reach string) {
	ft := fr.ft
	u := ft.e.u
	x := fr.get(t.X)
	opt := func(v ssa.Value, def string) string {
		if v == nil {
			return def
		}
		return fr.term(v).S
	}
	switch xt := t.X.Type().Underlying().(type) {
	case *types.Slice:
		xs := ft.termOf(x, t.X.Type())
		lo := opt(t.Low, "0")
		hi := opt(t.High, sx("slen", xs.S))
		mx := opt(t.Max, sx("scap", xs.S))
		if ft.e.wantSafety(fr) {
			fr.oblig("safe/slice", []string{"C20"}, t.Pos(), ft.e.lineText(t.Pos()), reach,
				and(sx("<=", "0", lo), sx("<=", lo, hi), sx("<=", hi, mx), sx("<=", mx, sx("scap", xs.S))))
		}
		r := sx("mk-slice", sx("sbase", xs.S), sx("+", sx("soff", xs.S), lo), sx("-", hi, lo), sx("-", mx, lo))
		fr.vals[t] = Val{T: Term{ft.define(t.Name(), SSlice, r), SSlice}}
	case *types.Basic: // string
		xs := ft.termOf(x, t.X.Type())
		lo := opt(t.Low, "0")
		hi := opt(t.High, sx("strlen", xs.S))
		if ft.e.wantSafety(fr) {
			fr.oblig("safe/slice", []string{"C20"}, t.Pos(), ft.e.lineText(t.Pos()), reach,
				and(sx("<=", "0", lo), sx("<=", lo, hi), sx("<=", hi, sx("strlen", xs.S))))
		}
		fr.vals[t] = Val{T: ft.substr(xs, lo, hi)}
	case *types.Pointer: // *[N]T
		at := xt.Elem().Underlying().(*types.Array)
		ref := ft.termOf(x, t.X.Type()).S
		n := fmt.Sprint(at.Len())
		lo := opt(t.Low, "0")
		hi := opt(t.High, n)
		mx := opt(t.Max, n)
		if ft.e.wantSafety(fr) && (t.Low != nil || t.High != nil) {
			fr.oblig("safe/slice", []string{"C20"}, t.Pos(), ft.e.lineText(t.Pos()), reach,
				and(sx("<=", "0", lo), sx("<=", lo, hi), sx("<=", hi, mx), sx("<=", mx, n)))
		}
		u.elemHeap(at.Elem())
		r := sx("mk-slice", ref, lo, sx("-", hi, lo), sx("-", mx, lo))
		name := ft.define(t.Name(), SSlice, r)
		if t.Low == nil && t.High == nil && t.Max == nil {
			ft.staticLen[name] = int(at.Len())
		}
		fr.vals[t] = Val{T: Term{name, SSlice}}
	default:
		ft.note("unsupported slice of %s", t.X.Type())
		fr.vals[t] = Val{T: Term{ft.fresh("slice", SSlice), SSlice}}
	}
}

func (ft *FT) substr(x Term, lo, hi string) Term {
	u := ft.e.u
	u.declFun("substr", "(declare-fun substr (Str Int Int) Str)")
	u.axiom("(forall ((a Str) (i Int) (j Int)) (! (=> (and (<= 0 i) (<= i j) (<= j (strlen a))) (= (strlen (substr a i j)) (- j i))) :pattern ((substr a i j))))")
	u.axiom("(forall ((a Str)) (! (= (substr a 0 (strlen a)) a) :pattern ((substr a 0 (strlen a)))))")
	// a string is its prefix followed by the rest (split at any position)
	u.declFun("strcat", "(declare-fun strcat (Str Str) Str)")
	u.axiom("(forall ((a Str) (i Int)) (! (=> (and (<= 0 i) (<= i (strlen a))) (= (strcat (substr a 0 i) (substr a i (strlen a))) a)) :pattern ((substr a 0 i)) :pattern ((substr a i (strlen a)))))")
	return Term{ft.define("substr", SStr, sx("substr", x.S, lo, hi)), SStr}
}

func (fr *frame) next(t *ssa.Next, st *State, reach string) {
	ft := fr.ft
	u := ft.e.u
	ok := ft.fresh("next_ok", SBool)
	rng := t.Iter.(*ssa.Range)
	x := fr.term(rng.X)
	if t.IsString {
		i := ft.fresh("next_i", SInt)
		r := ft.fresh("next_r", SInt)
		ft.assume(ok, and(sx("<=", "0", i), sx("<", i, sx("strlen", x.S))))
		fr.vals[t] = Val{Tuple: []Val{{T: Term{ok, SBool}}, {T: Term{i, SInt}}, {T: Term{r, SInt}}}}
		return
	}
	mt := rng.X.Type().Underlying().(*types.Map)
	dom, val, ks, vs := u.mapHeaps(mt)
	k := ft.fresh("next_k", ks)
	v := ft.define("next_v", vs, sel(sel(ft.heapTerm(st, val), x.S), k))
	ft.assume(ok, and(not(eq(x.S, "null")), sel(sel(ft.heapTerm(st, dom), x.S), k)))
	// every key is produced at most once; if the loop body neither inserts into
	// nor deletes from the ranged map, the iteration ends only after all keys
	vh, _ := fr.visitedHeap(rng, mt)
	vis := ft.heapTerm(st, vh)
	ft.assume(ok, not(sel(vis, k)))
	if fr.rangeKeysStable(rng, t) {
		d := sel(ft.heapTerm(st, dom), x.S)
		ft.assume(not(ok), implies(not(eq(x.S, "null")), fmt.Sprintf("(forall ((k %s)) (! (=> (select %s k) (select %s k)) :pattern ((select %s k))))", ks, d, vis, d)))
	}
	ft.setHeap(st, vh, ite(ok, store(vis, k, "true"), vis))
	ft.assumeAllocated(st, ok, Term{v, vs})
	ft.assumeAllocated(st, ok, Term{k, ks})
	fr.vals[t] = Val{Tuple: []Val{{T: Term{ok, SBool}}, {T: Term{k, ks}}, {T: Term{v, vs}}}}
}

// bytesStr: the content of a []byte as an abstract string value.
func (ft *FT) bytesStr(st *State, x Term) Term {
	u := ft.e.u
	h, _ := u.elemHeap(types.Typ[types.Uint8])
	fn := "str$of$uint8"
	u.declFun(fn, fmt.Sprintf("(declare-fun %s ((Array Int Int) Int Int) Str)", fn))
	u.axiom("(forall ((a (Array Int Int)) (o Int) (n Int)) (! (=> (>= n 0) (= (strlen (str$of$uint8 a o n)) n)) :pattern ((str$of$uint8 a o n))))")
	s := ft.define("str", SStr, sx(fn, sel(ft.heapTerm(st, h), sx("sbase", x.S)), sx("soff", x.S), sx("slen", x.S)))
	return Term{s, SStr}
}

// siteAsserts: "assert at \"text\"#k EXPR" clauses bound to call instructions.
func (fr *frame) siteAsserts(site ssa.Instruction, args []Val, st *State, reach string, after bool) {
	if fr.fc == nil || len(fr.fc.Asserts) == 0 || !site.Pos().IsValid() {
		return
	}
	call, _ := site.(*ssa.Call)
	ft := fr.ft
	e := ft.e
	for _, a := range fr.fc.Asserts {
		if a.E == nil || a.After != after {
			continue
		}
		if a.Occ == -1 {
			if !fr.isAssertSite(a, site) {
				continue
			}
		} else if target := fr.assertTarget(a); target != site {
			continue
		}
		// loopold(e) in a site clause: the innermost loop around the statement
		savedLE, savedLP := fr.curLoopEntry, fr.curLoopEntryPhis
		if fr.loops != nil {
			var inner *loop
			for _, lp := range fr.loops.headers {
				if lp != nil && lp.entryState != nil && lp.body[site.Block()] && (inner == nil || len(lp.body) < len(inner.body)) {
					inner = lp
				}
			}
			if inner != nil {
				fr.curLoopEntry, fr.curLoopEntryPhis = inner.entryState, inner.entryPhis
			}
		}
		restoreLE := func() { fr.curLoopEntry, fr.curLoopEntryPhis = savedLE, savedLP }
		env := fr.ownEnv(st, fr.entry, site.Block())
		if after && call != nil {
			// the value returned by the call (the statement's assignment has not happened yet)
			_, isTuple := call.Type().(*types.Tuple)
			if rv, ok := fr.vals[call]; ok && rv.Tuple == nil && !isTuple && rv.T.S != "" {
				env.vars["callresult"] = SVal{T: ft.termOf(rv, call.Type()), Typ: call.Type()}
			}
			// several results: callresult0, callresult1, ...
			if tt, ok := call.Type().(*types.Tuple); ok {
				if rv, ok := fr.vals[call]; ok && len(rv.Tuple) == tt.Len() {
					for k := 0; k < tt.Len(); k++ {
						if rv.Tuple[k].T.S != "" {
							env.vars[fmt.Sprintf("callresult%d", k)] = SVal{T: ft.termOf(rv.Tuple[k], tt.At(k).Type()), Typ: tt.At(k).Type()}
						}
					}
				}
			}
		}
		for i, v := range args {
			if call != nil && i < len(call.Call.Args) {
				env.vars[fmt.Sprintf("arg%d", i)] = SVal{T: ft.termOf(v, call.Call.Args[i].Type()), Typ: call.Call.Args[i].Type()}
			}
		}
		if a.Kind == "assign" {
			v, err := env.eval(a.E)
			restoreLE()
			if err != nil {
				e.contractError(a, err)
				continue
			}
			ft.setHeap(st, e.ghostHeap(a.Label), v.T.S)
			continue
		}
		goal, err := env.evalBool(a.E)
		restoreLE()
		if err != nil {
			e.contractError(a, err)
			continue
		}
		if a.Kind == "assume" {
			ft.assume(reach, goal)
			ft.assumed["ASSUME at "+a.Site+": "+a.Text] = true
			continue
		}
		fr.oblig("assert", a.Props, site.Pos(), a.name(), reach, goal)
	}
}

// isAssertSite: for "#*" clauses - call is the chosen call of some source line containing the text.
func (fr *frame) isAssertSite(a *Clause, call ssa.Instruction) bool {
	e := fr.ft.e
	if !call.Pos().IsValid() || !strings.Contains(e.sourceLine(call.Pos()), a.Site) {
		return false
	}
	one := *a
	for k := 1; k < 50; k++ {
		one.Occ = k
		one.Kind = "probe"
		t := fr.assertTarget(&one)
		if t == nil {
			return false
		}
		if t == call {
			return true
		}
	}
	return false
}

func (fr *frame) assertTarget(a *Clause) ssa.Instruction {
	e := fr.ft.e
	var cands []ssa.Instruction
	callLine := map[int]bool{}
	for _, b := range fr.fn.Blocks {
		for _, ins := range b.Instrs {
			if c, ok := ins.(*ssa.Call); ok && c.Pos().IsValid() {
				if strings.Contains(e.sourceLine(c.Pos()), a.Site) {
					cands = append(cands, c)
					callLine[e.fset.Position(c.Pos()).Line] = true
				}
			}
		}
	}
	// a plain assignment (no call on its line) binds to its store instruction
	for _, b := range fr.fn.Blocks {
		for _, ins := range b.Instrs {
			switch ins.(type) {
			case *ssa.Store, *ssa.MapUpdate:
			default:
				continue
			}
			if c := ins; c.Pos().IsValid() {
				if ln := e.fset.Position(c.Pos()).Line; !callLine[ln] && strings.Contains(e.sourceLine(c.Pos()), a.Site) {
					cands = append(cands, c)
				}
			}
		}
	}
	sort.Slice(cands, func(i, j int) bool { return cands[i].Pos() < cands[j].Pos() })
	// several SSA calls may share one source line (nested calls): keep the
	// outermost = the one whose position is the '(' matching the text; use
	// the last call on the first matching line for occurrence k.
	var lines []int
	byLine := map[int][]ssa.Instruction{}
	for _, c := range cands {
		ln := e.fset.Position(c.Pos()).Line
		if _, ok := byLine[ln]; !ok {
			lines = append(lines, ln)
		}
		byLine[ln] = append(byLine[ln], c)
	}
	if a.Occ < 1 || a.Occ > len(lines) {
		// the statement the assertion was attached to is gone: report the assertion as failed
		key := "missing-site:" + a.Site + a.Text
		if !fr.ft.assumed[key] && (a.Kind == "assert" || a.Kind == "assign") && fr.depth == 0 {
			fr.ft.assumed[key] = true
			o := fr.oblig("assert", a.Props, fr.fn.Pos(), a.name(), "true", "false")
			o.SrcLine = fmt.Sprintf("statement %q the assertion is attached to no longer exists in %s", a.Site, fr.fn.Name())
		}
		return nil
	}
	l := byLine[lines[a.Occ-1]]
	// choose the call whose callee name occurs (first) in the site text, else the last
	var best ssa.Instruction
	bestAt := -1
	for _, ci := range l {
		c, ok := ci.(*ssa.Call)
		if !ok {
			// a line of stores only: the first store
			return l[0]
		}
		name := ""
		if sc := c.Call.StaticCallee(); sc != nil {
			name = sc.Name()
		} else if b, ok := c.Call.Value.(*ssa.Builtin); ok {
			name = b.Name()
		}
		if name == "" {
			continue
		}
		if at := strings.Index(a.Site, name+"("); at >= 0 && (bestAt < 0 || at < bestAt) {
			best, bestAt = c, at
		}
	}
	if best != nil {
		return best
	}
	return l[len(l)-1]
}

// runDeferred executes a deferred call; a defer registered under a narrower
// condition than the current one runs conditionally.
func (fr *frame) runDeferred(d *deferred, st *State, reach string, xedges *[]inEdge) string {
	ft := fr.ft
	fr.inDeferred++
	defer func() { fr.inDeferred-- }()
	if d.cond == reach || d.cond == "true" || d.cond == "" {
		return fr.doCall(nil, d.call, d.fnv, d.args, st, reach, xedges, d.pos)
	}
	before := st.clone()
	taken := ft.define("defer_taken", SBool, and(reach, d.cond))
	r2 := fr.doCall(nil, d.call, d.fnv, d.args, st, taken, xedges, d.pos)
	skipped := ft.define("defer_skipped", SBool, and(reach, not(d.cond)))
	edges := []inEdge{{skipped, before, nil}}
	if r2 != "false" {
		edges = append(edges, inEdge{r2, st.clone(), nil})
	}
	nreach, nst := fr.mergeEdges(edges, "after_defer")
	defers := st.defers
	*st = *nst
	st.defers = defers
	return ft.define("reach_after_defer", SBool, nreach)
}

// vv: is the stored value trivially non-nil (fresh allocation)?
func vv(v Val, t Term) (Term, bool) {
	return t, false
}

// elemNonNil: container invariant - elements of slices (and arrays backing
// them) whose element type is a pointer to a repository struct are never nil.
// Assumed at loads, checked at stores (safe/nilstore).
func (e *Engine) elemNonNil(lv *LValue, t types.Type) bool {
	if lv == nil || !strings.HasPrefix(lv.Heap, "E$") || len(lv.Path) > 0 {
		return false
	}
	pt, ok := t.Underlying().(*types.Pointer)
	if !ok {
		return false
	}
	n, ok := pt.Elem().(*types.Named)
	if !ok || n.Obj().Pkg() == nil || !strings.HasPrefix(n.Obj().Pkg().Path(), repoPkgPrefix) {
		return false
	}
	if _, isStruct := n.Underlying().(*types.Struct); !isStruct {
		return false
	}
	return !e.nilableElems[typeName(t)]
}

// visitedHeap: pseudo heap holding the set of keys a map iteration has produced.
func (fr *frame) visitedHeap(rng *ssa.Range, mt *types.Map) (string, Sort) {
	u := fr.ft.e.u
	_, _, ks, _ := u.mapHeaps(mt)
	name := fmt.Sprintf("V$%s$%d", sanitize(rng.Parent().Name()), rng.Pos())
	u.heap(name, arraySort(ks, SBool))
	return name, ks
}

// rangeKeysStable: inside the loop of this map iteration the ranged map is
// written only at the current iteration key (values change, the key set does not).
func (fr *frame) rangeKeysStable(rng *ssa.Range, next *ssa.Next) bool {
	keys := map[ssa.Value]bool{}
	for _, ref := range *next.Referrers() {
		if ex, ok := ref.(*ssa.Extract); ok && ex.Index == 1 {
			keys[ex] = true
		}
	}
	if fr.loops == nil {
		return false
	}
	lp := fr.loops.headers[next.Block()]
	if lp == nil {
		return false
	}
	for b := range lp.body {
		for _, ins := range b.Instrs {
			switch x := ins.(type) {
			case *ssa.MapUpdate:
				same := sameLoadedValue(x.Map, rng.X)
				if same && !keys[x.Key] {
					return false
				}
				if !same && types.Identical(x.Map.Type(), rng.X.Type()) {
					return false // possible alias
				}
			case ssa.CallInstruction:
				c := x.Common()
				if bi, ok := c.Value.(*ssa.Builtin); ok && (bi.Name() == "delete" || bi.Name() == "clear") && len(c.Args) > 0 && types.Identical(c.Args[0].Type(), rng.X.Type()) {
					return false
				}
				if _, isB := c.Value.(*ssa.Builtin); !isB {
					// a callee might change the key set of a map of this type
					d, _, _, _ := fr.ft.e.u.mapHeaps(rng.X.Type().Underlying().(*types.Map))
					callees := fr.ft.e.possibleCallees(c)
					if len(callees) == 0 {
						return false
					}
					for _, g := range callees {
						if l, ok := fr.ft.e.modSetLevels(g)[d]; ok && l > 0 {
							return false
						}
					}
				}
			}
		}
	}
	return true
}

// sameLoadedValue: a and b are the same SSA value, or loads of the same
// captured variable / local cell that the function never stores to.
func sameLoadedValue(a, b ssa.Value) bool {
	if a == b {
		return true
	}
	la, ok1 := a.(*ssa.UnOp)
	lb, ok2 := b.(*ssa.UnOp)
	if !ok1 || !ok2 || la.Op != token.MUL || lb.Op != token.MUL || la.X != lb.X {
		return false
	}
	switch la.X.(type) {
	case *ssa.FreeVar, *ssa.Alloc:
	default:
		return false
	}
	fn := la.Parent()
	for _, blk := range fn.Blocks {
		for _, ins := range blk.Instrs {
			if st, ok := ins.(*ssa.Store); ok && st.Addr == la.X {
				return false
			}
		}
	}
	return true
}

// isSiteInstr: instructions a site clause ("assert at ...") can bind to.
func (fr *frame) isSiteInstr(ins ssa.Instruction) bool {
	switch ins.(type) {
	case *ssa.Call, *ssa.Store, *ssa.MapUpdate:
		return ins.Pos().IsValid()
	}
	return false
}
