#!/bin/bash
# Defect 1 (property C14): an ACL line is moved DOWNWARDS past a line that is
# still to be deleted.  Holds for IOS (diffIOSACLs) and ASA (diffASAACLs) in
# go/pkg/cisco/diff.go.
#
# Both functions first process all inserts (a line that is deleted at one
# place and inserted at another place is sent as one joined command
# "no OLD \n NEW" at that time) and afterwards delete the remaining old lines
# from bottom to top.  If a line M is moved downwards, it leaves its old place
# during the insert phase, although a to-be-deleted line D between old and new
# position of M is still present.  Packets that were decided by M in the old
# ACL and are decided by a common line E (located before the new position of
# M) in the new ACL are now decided by D.
#
# Old ACL:  M  permit tcp host 10.0.11.111 host 10.9.9.1 eq 22   (Netspoc server -> device)
#           D  deny ip any host 10.9.9.1                          (removed in new ACL)
#           E  permit tcp 10.0.11.0/24 any eq 22
#              deny ip any any
# New ACL:  E, M, deny ip any any
# ssh 10.0.11.111 -> 10.9.9.1 is permitted by the old ACL (M) and by the new
# ACL (E).  Emitted commands (IOS):
#   ip access-list resequence test 10000 10000
#   ip access-list extended test
#   no 10000\N 30001 permit tcp host 10.0.11.111 host 10.9.9.1 eq 22   <== step X
#   no 20000
# After step X the ACL on device is  D, E, M, deny ip any any :
# the management session is DENIED by D (lock-out; 'no 20000' can't be
# delivered any more).  ASA output has the same shape:
#   no access-list inside line 1 ... \N access-list inside line 3 ...  (M moved below D)
#   no access-list inside line 1 extended deny ip any4 host 10.9.9.1
# With actions swapped (M,D deny / permit) the same order opens traffic that
# is denied before and after, e.g.
#   old: deny ip host A any | permit ip any host B | deny ip host A host B
#   new: deny ip host A host B | deny ip host A any
# (found by brute force, see brute_test.go.txt in this directory).
set -e
T=$(mktemp -d)
DRC=${DRC:-${BIN:-}}
if [ -z "$DRC" ]; then
  export GOFLAGS=-mod=mod GOPROXY=off GOSUMDB=off GOTOOLCHAIN=local
  (cd /tmp/wt/C14b/go && go build -o $T/drc ./cmd/drc)
  DRC=$T/drc
fi
cd $T
cat > ios_dev <<'END'
ip access-list extended test
 permit tcp host 10.0.11.111 host 10.9.9.1 eq 22
 deny ip any host 10.9.9.1
 permit tcp 10.0.11.0 0.0.0.255 any eq 22
 deny ip any any

interface Ethernet1
 ip access-group test in
END
cat > ios_spoc <<'END'
ip access-list extended test
 permit tcp 10.0.11.0 0.0.0.255 any eq 22
 permit tcp host 10.0.11.111 host 10.9.9.1 eq 22
 deny ip any any

interface Ethernet1
 ip access-group test in
END
echo '{"model":"IOS","name_list":["router"],"ip_list":["10.1.13.33"]}' > ios_spoc.info
cat > asa_dev <<'END'
interface Ethernet0/0
 nameif inside
access-list inside extended permit tcp host 10.0.11.111 host 10.9.9.1 eq 22
access-list inside extended deny ip any4 host 10.9.9.1
access-list inside extended permit tcp 10.0.11.0 255.255.255.0 any4 eq 22
access-list inside extended deny ip any4 any4
access-group inside in interface inside
END
cat > asa_spoc <<'END'
access-list inside extended permit tcp 10.0.11.0 255.255.255.0 any4 eq 22
access-list inside extended permit tcp host 10.0.11.111 host 10.9.9.1 eq 22
access-list inside extended deny ip any4 any4
access-group inside in interface inside
END
echo '{"model":"ASA","name_list":["fw"],"ip_list":["10.1.13.33"]}' > asa_spoc.info
echo "=== IOS"
$DRC -q ios_dev ios_spoc | tee ios_out
echo "=== ASA"
$DRC -q asa_dev asa_spoc | tee asa_out
rc=0
# Violation: the permit line for the management session is moved below the
# deny line BEFORE that deny line is deleted.
if [ "$(grep -n 'permit tcp host 10.0.11.111' ios_out | head -1 | cut -d: -f1)" -lt \
     "$(grep -n '^no 20000' ios_out | cut -d: -f1)" ]; then
  echo "IOS: VIOLATION reproduced: line moved below 'deny ip any host 10.9.9.1' before that line is deleted"
  rc=1
fi
if [ "$(grep -n 'permit tcp host 10.0.11.111' asa_out | head -1 | cut -d: -f1)" -lt \
     "$(grep -n '^no access-list inside line [0-9]* extended deny ip any4 host 10.9.9.1' asa_out | cut -d: -f1)" ]; then
  echo "ASA: VIOLATION reproduced: line moved below 'deny ip any4 host 10.9.9.1' before that line is deleted"
  rc=1
fi
[ $rc = 0 ] && echo "not reproduced (fixed?)"
rm -rf $T
exit $rc
