package main

import (
	"os"
	"fmt"
	"go/token"
	"go/types"
	"strings"

	"golang.org/x/tools/go/ssa"
)

const maxInlineDepth = 6

func (fr *frame) setResult(instr *ssa.Call, v Val) {
	if instr != nil {
		fr.vals[instr] = v
	}
}

// doCall handles every call. Returns the reach condition of normal return.
func (fr *frame) doCall(instr *ssa.Call, c *ssa.CallCommon, fnv Val, args []Val, st *State, reach string, xedges *[]inEdge, pos token.Pos) string {
	ft := fr.ft
	e := ft.e
	if b, ok := c.Value.(*ssa.Builtin); ok && !c.IsInvoke() {
		return fr.builtin(instr, b, c, args, st, reach, xedges, pos)
	}
	if c.IsInvoke() {
		recv := ft.termOf(fnv, c.Value.Type())
		if e.wantSafety(fr) {
			fr.oblig("safe/nil", []string{"C20"}, pos, e.lineText(pos), reach, not(eq(recv.S, "null")))
		}
		// specialised verification: the dynamic type is fixed
		if ft.devirt != nil {
			if ct, ok := ft.devirt[types.TypeString(c.Value.Type(), nil)]; ok {
				ms := e.prog.MethodSets.MethodSet(ct)
				if sel := ms.Lookup(c.Method.Pkg(), c.Method.Name()); sel != nil {
					if f := e.prog.MethodValue(sel); f != nil {
						ft.assume(reach, eq(sx("dyntype", recv.S), fmt.Sprint(e.u.typeID(ct))))
						all := append([]Val{{T: recv}}, args...)
						return fr.staticCall(instr, c, f, all, nil, st, reach, xedges, pos)
					}
				}
			}
		}
		// interface method contract?
		if fc := e.ifaceContract(c); fc != nil {
			all := append([]Val{{T: recv}}, args...)
			return fr.applyContract(instr, nil, c, fc, all, nil, st, reach, xedges, pos)
		}
		impls := e.implementations(c)
		if len(impls) == 0 {
			// external interface method (error.Error, io.Reader...)
			return fr.externalCall(instr, nil, c, c.Method.FullName(), c.Signature(), append([]Val{{T: recv}}, args...), st, reach, pos)
		}
		// havoc by union of implementations' effects; the preconditions of
		// every possible implementation must hold
		ms := map[string]int{}
		mayPanic := false
		for _, f := range impls {
			fr.checkPreOnly(f, c, append([]Val{{T: recv}}, args...), nil, st, reach, pos)
			for h, l := range e.modSetLevels(f) {
				if ms[h] < l {
					ms[h] = l
				}
			}
			if e.mayPanic(f) {
				mayPanic = true
			}
		}
		ft.havocked[c.Method.FullName()] = true
		fr.escapeArgs(st, args)
		fr.escape(st, Val{T: recv}, 0)
		return fr.havocCall(instr, c.Signature(), ms, mayPanic, st, reach, xedges)
	}
	var callee *ssa.Function
	var bindings []Val
	if sc := c.StaticCallee(); sc != nil {
		callee = sc
		if mc, ok := c.Value.(*ssa.MakeClosure); ok {
			for _, b := range mc.Bindings {
				bindings = append(bindings, fr.get(b))
			}
		}
	} else if fnv.Clo != nil {
		callee = fnv.Clo.Fn
		bindings = fnv.Clo.Bindings
	}
	if callee == nil && len(fnv.Alts) > 0 {
		// function value selected among known closures: the preconditions of
		// each candidate must hold on the paths that select it; effects are
		// the union of the candidates' effects
		ms := map[string]int{}
		mayPanic := false
		for _, a := range fnv.Alts {
			f, fargs := a.Clo.Fn, args
			binds := a.Clo.Bindings
			if target := boundTarget(f); target != nil && len(binds) == 1 {
				f, fargs, binds = target, append([]Val{binds[0]}, args...), nil
			}
			ri := ft.define("reach_alt", SBool, and(reach, a.Cond))
			fr.checkPreOnly(f, c, fargs, binds, st, ri, pos)
			for h, l := range e.modSetLevels(f) {
				if ms[h] < l {
					ms[h] = l
				}
			}
			if e.mayPanic(f) {
				mayPanic = true
			}
			ft.havocked[f.String()] = true
		}
		fr.escapeArgs(st, args)
		return fr.havocCall(instr, c.Signature(), ms, mayPanic, st, reach, xedges)
	}
	if callee == nil {
		// unknown function value
		fv := ft.termOf(fnv, c.Value.Type())
		if e.wantSafety(fr) {
			fr.oblig("safe/nil", []string{"C20"}, pos, e.lineText(pos), reach, not(eq(fv.S, "null")))
		}
		msb, mp := e.dynamicCallEffects(c.Signature())
		ms := map[string]int{}
		for h := range msb {
			ms[h] = modAny
		}
		for _, f := range e.addrTakenWithSig(c.Signature()) {
			if len(f.FreeVars) == 0 {
				fr.checkPreOnly(f, c, args, nil, st, reach, pos)
			} else if fc := e.contractOf(f); fc != nil && hasCheckedRequires(fc) {
				fr.oblig("pre", allProps(fc), pos, "dynamic call may reach closure "+fc.Name+" with preconditions", reach, "false")
			}
		}
		ft.note("call of unknown function value in %s: effects of all address-taken functions of that signature", fr.fn)
		fr.escapeArgs(st, args)
		return fr.havocCall(instr, c.Signature(), ms, mp, st, reach, xedges)
	}
	if len(bindings) != len(callee.FreeVars) {
		// closure value whose bindings are unknown here
		if len(callee.FreeVars) > 0 {
			ft.havocked[callee.String()] = true
			fr.escapeArgs(st, args)
			return fr.havocCall(instr, c.Signature(), e.modSetLevels(callee), e.mayPanic(callee), st, reach, xedges)
		}
	}
	return fr.staticCall(instr, c, callee, args, bindings, st, reach, xedges, pos)
}

func (fr *frame) staticCall(instr *ssa.Call, c *ssa.CallCommon, callee *ssa.Function, args, bindings []Val, st *State, reach string, xedges *[]inEdge, pos token.Pos) string {
	ft := fr.ft
	e := ft.e
	// wrappers/thunks synthesised by go/ssa (promoted methods): inline always
	fc := e.contractOf(callee)
	if fc != nil && !(fc.Inline && callee.Blocks != nil) {
		return fr.applyContract(instr, callee, c, fc, args, bindings, st, reach, xedges, pos)
	}
	if callee.Blocks == nil || !e.inRepo(callee) {
		return fr.externalCall(instr, callee, c, e.extName(callee), c.Signature(), args, st, reach, pos)
	}
	// repository function without contract: inline
	// closures of a function that is itself being verified are part of its body
	ownClosure := callee.Parent() != nil && ft.onStack(callee.Parent())
	if fr.depth < maxInlineDepth && !ft.onStack(callee) && (ownClosure || (!e.noInline(callee) && e.worthInlining(callee))) {
		return fr.inline(instr, callee, args, bindings, st, reach, xedges)
	}
	ft.havocked[callee.String()] = true
	fr.escapeArgs(st, args)
	fr.escapeArgs(st, bindings)
	return fr.havocCall(instr, callee.Signature, e.calleeEffects(callee, c), e.mayPanic(callee), st, reach, xedges)
}

func (ft *FT) onStack(f *ssa.Function) bool {
	for _, g := range ft.inlineStack {
		if g == f {
			return true
		}
	}
	return false
}

func (fr *frame) freshResults(sig *types.Signature, st *State, reach string) Val {
	ft := fr.ft
	u := ft.e.u
	rs := sig.Results()
	var vals []Val
	for i := 0; i < rs.Len(); i++ {
		s := u.sortOf(rs.At(i).Type())
		t := Term{ft.fresh("res", s), s}
		ft.assumeAllocated(st, reach, t)
		fr.assumeTypeRange(t, rs.At(i).Type())
		vals = append(vals, Val{T: t})
	}
	switch len(vals) {
	case 0:
		return Val{}
	case 1:
		return vals[0]
	}
	return Val{Tuple: vals}
}

func (fr *frame) assumeTypeRange(t Term, typ types.Type) {
	if b, ok := typ.Underlying().(*types.Basic); ok && t.Sort == SInt {
		if lo, hi, ok := rangeOfBasic(b); ok {
			fr.ft.assume("true", and(sx("<=", lo, t.S), sx("<=", t.S, hi)))
		}
	}
}

func (fr *frame) havocLevels(st *State, ms map[string]int, byCallee bool) {
	ft := fr.ft
	allocOld := ft.heapTerm(st, allocHeap)
	escNow := ""
	var privs []string
	if byCallee {
		escNow = ft.heapTerm(st, escHeap)
		for f := fr; f != nil; f = f.parent {
			for _, a := range privateAllocs(f.fn) {
				if v, ok := f.vals[a]; ok && v.T.S != "" && v.T.Sort == SRef {
					privs = append(privs, v.T.S)
				}
			}
		}
	}
	for _, h := range sortedKeys(ms) {
		if ms[h] == 0 {
			continue
		}
		if h == allocHeap {
			fr.growAlloc(st)
			continue
		}
		s, ok := ft.e.u.heaps[h]
		if !ok {
			continue
		}
		h := h
		prev := ft.rawHeap(st, h)
		if ms[h] == modFresh && strings.HasPrefix(string(s), "(Array Ref ") {
			// only objects allocated during the call are written
			st.heaps[h] = ft.lazy(func() string {
				old := ft.forceRaw(prev)
				nw := ft.fresh(h, s)
				ft.assume("true", fmt.Sprintf("(forall ((r Ref)) (! (=> (select %s r) (= (select %s r) (select %s r))) :pattern ((select %s r))))", allocOld, nw, old, nw))
				return nw
			})
			continue
		}
		if strings.HasPrefix(h, "G$ghost$") {
			if g := ft.e.cs.Ghosts[strings.TrimPrefix(h, "G$ghost$")]; g != nil && g.StableOnReturn && ms[panickingHeap] == 0 {
				continue
			}
			if g := ft.e.cs.Ghosts[strings.TrimPrefix(h, "G$ghost$")]; g != nil && g.Mono {
				st.heaps[h] = ft.lazy(func() string {
					old := ft.forceRaw(prev)
					nw := ft.fresh(h, s)
					ft.assume("true", sx(">=", nw, old))
					return nw
				})
				continue
			}
		}
		if byCallee && strings.HasPrefix(string(s), "(Array Ref ") && h != escHeap {
			// a callee cannot touch objects that were allocated by the function
			// under verification and never escaped (passed on or stored)
			entry := ft.initialHeap(allocHeap)
			st.heaps[h] = ft.lazy(func() string {
				old := ft.forceRaw(prev)
				nw := ft.fresh(h, s)
				ft.assume("true", fmt.Sprintf("(forall ((r Ref)) (! (=> (and (not (select %s r)) (not (select %s r))) (= (select %s r) (select %s r))) :pattern ((select %s r))))", entry, escNow, nw, old, nw))
				// local variables whose address is never handed out are out of any callee's reach
				for _, pr := range privs {
					ft.assume("true", eq(sel(nw, pr), sel(old, pr)))
				}
				return nw
			})
			continue
		}
		ft.havocHeap(st, h)
	}
}

// escape marks references that leave the control of the function under verification.
func (fr *frame) escape(st *State, v Val, depth int) {
	ft := fr.ft
	if depth > 3 {
		return
	}
	mark := func(r string) {
		if r == "" || r == "null" {
			return
		}
		ft.setHeap(st, escHeap, store(ft.heapTerm(st, escHeap), r, "true"))
	}
	if v.Clo != nil {
		for _, b := range v.Clo.Bindings {
			fr.escape(st, b, depth+1)
		}
	}
	switch v.T.Sort {
	case SRef:
		mark(v.T.S)
	case SSlice:
		mark(sx("sbase", v.T.S))
	}
	for _, t := range v.Tuple {
		fr.escape(st, t, depth+1)
	}
}

func (fr *frame) escapeArgs(st *State, args []Val) {
	for _, a := range args {
		fr.escape(st, a, 0)
	}
}

func (fr *frame) havocCall(instr *ssa.Call, sig *types.Signature, ms map[string]int, mayPanic bool, st *State, reach string, xedges *[]inEdge) string {
	ft := fr.ft
	fr.havocLevels(st, ms, true)
	if mayPanic {
		threw := ft.fresh("threw", SBool)
		xs := st.clone()
		fr.havocStableForExc(xs, ms)
		ft.setHeap(xs, panickingHeap, "true")
		ft.havocHeap(xs, panicvalHeap)
		ft.assume("true", not(eq(ft.heapTerm(xs, panicvalHeap), "null")))
		*xedges = append(*xedges, inEdge{and(reach, threw), xs, nil})
		reach = ft.define("reach_ret", SBool, and(reach, not(threw)))
	}
	fr.setResult(instr, fr.freshResults(sig, st, reach))
	return reach
}

func (fr *frame) growAlloc(st *State) {
	ft := fr.ft
	old := ft.heapTerm(st, allocHeap)
	ft.havocHeap(st, allocHeap)
	nw := ft.heapTerm(st, allocHeap)
	ft.assume("true", fmt.Sprintf("(forall ((r Ref)) (! (=> (select %s r) (select %s r)) :pattern ((select %s r))))", old, nw, nw))
}

// inline executes the callee body in place.
func (fr *frame) inline(instr *ssa.Call, callee *ssa.Function, args, bindings []Val, st *State, reach string, xedges *[]inEdge) string {
	ft := fr.ft
	ft.inlined[callee.String()] = true
	child := &frame{ft: ft, fn: callee, vals: map[ssa.Value]Val{}, parent: fr, depth: fr.depth + 1,
		fc: ft.e.contractOf(callee), lets: map[string]SVal{}}
	child.prefix = fr.prefix
	if child.prefix == "" {
		child.prefix = shortFuncName(fr.fn)
	}
	for i, p := range callee.Params {
		if i < len(args) {
			child.vals[p] = args[i]
		}
	}
	for i, fv := range callee.FreeVars {
		if i < len(bindings) {
			child.vals[fv] = bindings[i]
		}
	}
	saved := st.defers
	entry := st.clone()
	entry.defers = nil
	child.entry = entry
	// hypotheses of an inlined function (assumptions about its inputs) hold
	// wherever its body runs
	if child.fc != nil {
		for _, r := range child.fc.Requires {
			if !r.Hypothesis || r.E == nil {
				continue
			}
			if fact, err := child.evalBool(r.E, entry, entry, nil); err == nil {
				ft.assume(reach, fact)
				ft.assumed["HYPOTHESIS of "+child.fc.Name+" (property hypothesis, not checked at call sites): "+r.Text] = true
			}
		}
	}
	ft.inlineStack = append(ft.inlineStack, callee)
	child.execBody(entry, reach)
	ft.inlineStack = ft.inlineStack[:len(ft.inlineStack)-1]
	for _, x := range child.xexits {
		xs := x.st
		xs.defers = saved
		*xedges = append(*xedges, inEdge{x.cond, xs, nil})
	}
	if len(child.exits) == 0 {
		fr.setResult(instr, fr.freshResults(callee.Signature, st, "false"))
		return "false"
	}
	var edges []inEdge
	for _, x := range child.exits {
		edges = append(edges, inEdge{x.cond, x.st, nil})
	}
	nreach, nst := fr.mergeEdges(edges, "ret_"+sanitize(callee.Name()))
	nreach = ft.define("reach_ret", SBool, nreach)
	nst.defers = saved
	*st = *nst
	// merge results
	nres := callee.Signature.Results().Len()
	var vals []Val
	for i := 0; i < nres; i++ {
		rt := callee.Signature.Results().At(i).Type()
		var t string
		var clo *Closure
		for j := len(child.exits) - 1; j >= 0; j-- {
			x := child.exits[j]
			v := ft.termOf(x.results[i], rt).S
			if j == len(child.exits)-1 {
				t = v
				clo = x.results[i].Clo
			} else {
				t = ite(x.cond, v, t)
				if x.results[i].Clo != clo {
					clo = nil
				}
			}
		}
		s := ft.e.u.sortOf(rt)
		vals = append(vals, Val{T: Term{ft.define("ret", s, t), s}, Clo: clo})
	}
	switch len(vals) {
	case 0:
		fr.setResult(instr, Val{})
	case 1:
		fr.setResult(instr, vals[0])
	default:
		fr.setResult(instr, Val{Tuple: vals})
	}
	return nreach
}

func shortFuncName(f *ssa.Function) string {
	s := f.RelString(nil)
	return strings.ReplaceAll(s, repoPkgPrefix, "")
}

// applyContract: modular call.
func (fr *frame) applyContract(instr *ssa.Call, callee *ssa.Function, c *ssa.CallCommon, fc *FuncContract, args, bindings []Val, st *State, reach string, xedges *[]inEdge, pos token.Pos) string {
	ft := fr.ft
	e := ft.e
	fc.used = true
	ft.assumed[fc.Name] = true
	sig := c.Signature()
	env := e.calleeEnv(fr, fc, callee, c, args, bindings)
	old := st.clone()
	env.old = old
	env.cur = old
	// let bindings (entry state)
	for _, l := range fc.Lets {
		v, err := env.eval(l.E)
		if err != nil {
			e.contractError(l, err)
			continue
		}
		env.vars[l.Label] = v
	}
	cname := fc.Name
	for _, r := range fc.Requires {
		if r.Hypothesis {
			continue
		}
		goal, err := env.evalBool(r.E)
		if err != nil {
			e.contractError(r, err)
			continue
		}
		fr.oblig("pre", r.Props, pos, fmt.Sprintf("%s requires %s", cname, r.name()), reach, goal)
	}
	// frame
	ms := map[string]int{}
	if fc.HasMod {
		for h := range e.resolveModifies(fc, callee) {
			ms[h] = modAny
		}
	} else if callee != nil && callee.Blocks != nil && e.inRepo(callee) {
		for h, l := range e.calleeEffects(callee, c) {
			ms[h] = l
		}
	}
	for _, u := range fc.Updates {
		ms[e.ghostHeap(u.Label)] = 0 // set explicitly below
	}
	if fc.FreshResult {
		ms[allocHeap] = modFresh // the callee allocates its results
	}
	fr.escapeArgs(st, args)
	fr.escapeArgs(st, bindings)
	fr.havocLevels(st, ms, true)
	for _, u := range fc.Updates {
		if !fc.Trusted {
			// ghost code of a verified function: callers see it through ensures
			ft.havocHeap(st, e.ghostHeap(u.Label))
			continue
		}
		v, err := env.eval(u.E)
		if err != nil {
			e.contractError(u, err)
			continue
		}
		ft.setHeap(st, e.ghostHeap(u.Label), v.T.S)
	}
	mayPanic := e.contractMayPanic(fc, callee)
	if mayPanic {
		threw := ft.fresh("threw", SBool)
		xs := st.clone()
		fr.havocStableForExc(xs, ms)
		ft.setHeap(xs, panickingHeap, "true")
		ft.havocHeap(xs, panicvalHeap)
		ft.assume("true", not(eq(ft.heapTerm(xs, panicvalHeap), "null")))
		xenv := *env
		xenv.cur = xs
		xreach := ft.define("xreach_call", SBool, and(reach, threw))
		for _, x := range fc.XEnsures {
			fact, err := xenv.evalBool(x.E)
			if err != nil {
				e.contractError(x, err)
				continue
			}
			ft.assume(xreach, fact)
		}
		*xedges = append(*xedges, inEdge{xreach, xs, nil})
		reach = ft.define("reach_ret", SBool, and(reach, not(threw)))
	}
	res := fr.freshResults(sig, st, reach)
	if fc.FreshResult {
		// results are fresh, unshared memory: owned by the caller like its own allocations
		mark := func(v Val, t types.Type) {
			tm := ft.termOf(v, t)
			var ref string
			switch tm.Sort {
			case SSlice:
				ref = sx("sbase", tm.S)
			case SRef:
				ref = tm.S
			default:
				return
			}
			a := ft.heapTerm(old, allocHeap)
			ft.assume(reach, or(eq(ref, "null"), not(sel(a, ref))))
			ft.setHeap(st, escHeap, store(ft.heapTerm(st, escHeap), ref, "false"))
		}
		if sig.Results().Len() == 1 {
			mark(res, sig.Results().At(0).Type())
		} else {
			for i := 0; i < sig.Results().Len() && i < len(res.Tuple); i++ {
				mark(res.Tuple[i], sig.Results().At(i).Type())
			}
		}
	}
	fr.setResult(instr, res)
	env.cur = st
	env.bindResults(sig, callee, res)
	for _, en := range fc.Ensures {
		if en.E == nil {
			continue
		}
		fact, err := env.evalBool(en.E)
		if err != nil {
			// postconditions over locals of the callee are internal to it
			if callee != nil && callee.Blocks != nil && strings.Contains(err.Error(), "unknown name") {
				continue
			}
			e.contractError(en, err)
			continue
		}
		ft.assume(reach, fact)
	}
	// references mentioned by the postconditions exist in the post-state
	for i, l := range env.loads {
		if i < len(env.loadEntry) && env.loadEntry[i] {
			ft.assumeAllocatedAtEntry(reach, l)
		} else {
			ft.assumeAllocated(st, reach, l)
		}
	}
	return reach
}

// externalCall: library function without contract.
func (fr *frame) externalCall(instr *ssa.Call, callee *ssa.Function, c *ssa.CallCommon, name string, sig *types.Signature, args []Val, st *State, reach string, pos token.Pos) string {
	ft := fr.ft
	e := ft.e
	u := e.u
	if r, ok := fr.libCall(instr, callee, name, sig, args, st, reach, pos); ok {
		return r
	}
	// pointer receiver of an external method must not be nil
	if callee != nil && callee.Signature.Recv() != nil && len(args) > 0 {
		if _, isPtr := callee.Signature.Recv().Type().Underlying().(*types.Pointer); isPtr && e.wantSafety(fr) && !e.nilSafeRecv[name] {
			r := ft.termOf(args[0], callee.Signature.Recv().Type())
			fr.oblig("safe/nil", []string{"C20"}, pos, e.lineText(pos), reach, not(eq(r.S, "null")))
		}
	}
	// pure function of scalar arguments: uninterpreted function
	rs := sig.Results()
	scalar := true
	var argTerms []string
	var argSorts []string
	params := sig.Params()
	nparams := params.Len()
	for i, a := range args {
		var pt types.Type
		off := 0
		if sig.Recv() != nil {
			off = 1
		}
		if i < off {
			pt = sig.Recv().Type()
		} else if i-off < nparams {
			pt = params.At(i - off).Type()
		} else {
			scalar = false
			break
		}
		s := u.sortOf(pt)
		if s != SInt && s != SBool && s != SStr && s != SReal {
			scalar = false
			break
		}
		t := ft.termOf(a, pt)
		argTerms = append(argTerms, t.S)
		argSorts = append(argSorts, string(t.Sort))
	}
	if scalar && rs.Len() >= 1 && e.knownPure(name) {
		var vals []Val
		for i := 0; i < rs.Len(); i++ {
			s := u.sortOf(rs.At(i).Type())
			fn := fmt.Sprintf("ext$%s$%d", mangle(name), i)
			if len(argTerms) == 0 {
				u.declFun(fn, fmt.Sprintf("(declare-const %s %s)", fn, s))
				vals = append(vals, Val{T: Term{fn, s}})
			} else {
				u.declFun(fn, fmt.Sprintf("(declare-fun %s (%s) %s)", fn, strings.Join(argSorts, " "), s))
				vals = append(vals, Val{T: Term{ft.define("ext", s, sx(fn, argTerms...)), s}})
			}
		}
		if len(vals) == 1 {
			fr.setResult(instr, vals[0])
		} else {
			fr.setResult(instr, Val{Tuple: vals})
		}
		// C17 taint discipline: a pure string function of secret free arguments
		// yields secret free strings
		if e.curProp == "C17" && fr.taintDecls() {
			var pre []string
			for i, a := range argTerms {
				if argSorts[i] == string(SStr) {
					pre = append(pre, sx("spec$secretFree", a))
				}
			}
			for _, v := range vals {
				if v.T.Sort == SStr {
					ft.assume("true", implies(and(pre...), sx("spec$secretFree", v.T.S)))
				}
			}
		}
		e.usedExternals[name] = "pure-uf"
		return reach
	}
	// default: fresh results; heaps reachable through arguments of slice /
	// pointer type may be written by the callee
	ms := map[string]bool{}
	if !e.knownPure(name) {
		for i, a := range args {
			_ = a
			var pt types.Type
			off := 0
			if sig.Recv() != nil {
				off = 1
			}
			if i < off {
				pt = sig.Recv().Type()
			} else if i-off < nparams {
				pt = params.At(i - off).Type()
			}
			// the actual (pre-conversion) type of the argument decides what can be written
			if c != nil {
				k := i
				if c.IsInvoke() {
					k = i - 1
				}
				if k >= 0 && k < len(c.Args) {
					pt = actualArgType(c.Args[k])
				}
			}
			if pt != nil {
				e.writableThrough(pt, ms, 0)
			}
		}
		// variadic ...any arguments: elements of the varargs array
		if c != nil {
			for _, a := range c.Args {
				if sl, ok := a.(*ssa.Slice); ok {
					if al, ok := sl.X.(*ssa.Alloc); ok {
						for _, ref := range *al.Referrers() {
							if ia, ok := ref.(*ssa.IndexAddr); ok {
								for _, r2 := range *ia.Referrers() {
									if stI, ok := r2.(*ssa.Store); ok {
										e.writableThrough(actualArgType(stI.Val), ms, 0)
									}
								}
							}
						}
					}
				}
			}
		}
	}
	fr.escapeArgs(st, args)
	if len(ms) > 0 {
		lv := map[string]int{}
		for h := range ms {
			lv[h] = modAny
		}
		fr.havocLevels(st, lv, true)
	}
	if len(ms) > 0 {
		e.usedExternals[name] = "havoc-args"
	} else if _, ok := e.usedExternals[name]; !ok {
		e.usedExternals[name] = "fresh-result"
	}
	fr.setResult(instr, fr.freshResults(sig, st, reach))
	return reach
}

// builtin functions
func (fr *frame) builtin(instr *ssa.Call, b *ssa.Builtin, c *ssa.CallCommon, args []Val, st *State, reach string, xedges *[]inEdge, pos token.Pos) string {
	ft := fr.ft
	u := ft.e.u
	argT := func(i int) Term { return ft.termOf(args[i], c.Args[i].Type()) }
	switch b.Name() {
	case "len", "cap":
		x := argT(0)
		var r string
		switch xt := c.Args[0].Type().Underlying().(type) {
		case *types.Slice:
			if b.Name() == "len" {
				r = sx("slen", x.S)
			} else {
				r = sx("scap", x.S)
			}
		case *types.Basic:
			r = sx("strlen", x.S)
		case *types.Map:
			dom, _, ks, _ := u.mapHeaps(xt)
			fn := "card$" + typeName(xt.Key())
			u.declFun(fn, fmt.Sprintf("(declare-fun %s ((Array %s Bool)) Int)", fn, ks))
			u.axiom(fmt.Sprintf("(forall ((a (Array %s Bool))) (! (>= (%s a) 0) :pattern ((%s a))))", ks, fn, fn))
			u.axiom(fmt.Sprintf("(forall ((a (Array %s Bool)) (k %s)) (! (=> (select a k) (> (%s a) 0)) :pattern ((select a k) (%s a))))", ks, ks, fn, fn))
			u.axiom(fmt.Sprintf("(= (%s ((as const (Array %s Bool)) false)) 0)", fn, ks))
			r = ite(eq(x.S, "null"), "0", sx(fn, sel(ft.heapTerm(st, dom), x.S)))
		case *types.Array:
			r = fmt.Sprint(xt.Len())
		case *types.Pointer:
			r = fmt.Sprint(xt.Elem().Underlying().(*types.Array).Len())
		default:
			r = ft.fresh("len", SInt)
		}
		fr.setResult(instr, Val{T: Term{ft.define(b.Name(), SInt, r), SInt}})
	case "append":
		fr.appendCall(instr, c, args, st, reach)
	case "copy":
		// copy(dst, src): dst elements overwritten
		dt := c.Args[0].Type().Underlying().(*types.Slice)
		h, es := u.elemHeap(dt.Elem())
		d := argT(0)
		var srcLen string
		var srcArr, srcOff string
		if _, isStr := c.Args[1].Type().Underlying().(*types.Basic); isStr {
			srcLen = sx("strlen", argT(1).S)
		} else {
			s := argT(1)
			srcLen = sx("slen", s.S)
			srcArr = sel(ft.heapTerm(st, h), sx("sbase", s.S))
			srcOff = s.S
		}
		n := ft.define("ncopy", SInt, ite(sx("<", sx("slen", d.S), srcLen), sx("slen", d.S), srcLen))
		oldArr := ft.define("oldarr", arraySort(SInt, es), sel(ft.heapTerm(st, h), sx("sbase", d.S)))
		if srcArr != "" {
			srcArr = ft.define("srcarr", arraySort(SInt, es), srcArr)
		}
		na := ft.fresh("copied", arraySort(SInt, es))
		doff := sx("soff", d.S)
		inRange := fmt.Sprintf("(and (<= %s j) (< j (+ %s %s)))", doff, doff, n)
		var src string
		if srcArr != "" {
			src = fmt.Sprintf("(select %s (ix %s (- j %s)))", srcArr, srcOff, doff)
			ft.assume("true", fmt.Sprintf("(forall ((j Int)) (! (= (select %s j) (ite %s %s (select %s j))) :pattern ((select %s j))))", na, inRange, src, oldArr, na))
		} else {
			ft.assume("true", fmt.Sprintf("(forall ((j Int)) (! (=> (not %s) (= (select %s j) (select %s j))) :pattern ((select %s j))))", inRange, na, oldArr, na))
		}
		ft.setHeap(st, h, store(ft.heapTerm(st, h), sx("sbase", d.S), na))
		fr.setResult(instr, Val{T: Term{n, SInt}})
	case "delete":
		mt := c.Args[0].Type().Underlying().(*types.Map)
		dom, _, _, _ := u.mapHeaps(mt)
		m := argT(0)
		k := argT(1)
		d := ft.heapTerm(st, dom)
		// delete on nil map is a no-op
		ft.setHeap(st, dom, ite(eq(m.S, "null"), d, store(d, m.S, store(sel(d, m.S), k.S, "false"))))
	case "recover":
		p := ft.heapTerm(st, panickingHeap)
		v := ft.define("recovered", SRef, ite(p, ft.heapTerm(st, panicvalHeap), "null"))
		if fr.parent != nil && fr.parent.inExc || fr.inExc {
			ft.setHeap(st, panickingHeap, "false")
		}
		fr.setResult(instr, Val{T: Term{v, SRef}})
	case "min", "max":
		x := argT(0)
		r := x.S
		for i := 1; i < len(args); i++ {
			y := argT(i)
			if b.Name() == "min" {
				r = ite(sx("<", y.S, r), y.S, r)
			} else {
				r = ite(sx(">", y.S, r), y.S, r)
			}
		}
		fr.setResult(instr, Val{T: Term{ft.define(b.Name(), x.Sort, r), x.Sort}})
	case "print", "println":
	case "clear":
		switch xt := c.Args[0].Type().Underlying().(type) {
		case *types.Map:
			dom, _, ks, _ := u.mapHeaps(xt)
			m := argT(0)
			d := ft.heapTerm(st, dom)
			ft.setHeap(st, dom, ite(eq(m.S, "null"), d, store(d, m.S, fmt.Sprintf("((as const (Array %s Bool)) false)", ks))))
		default:
			ft.note("clear on %s not modelled", c.Args[0].Type())
			ft.havocAll(st)
		}
	case "ssa:wrapnilchk":
		fr.setResult(instr, args[0])
	default:
		ft.note("builtin %s not modelled in %s", b.Name(), fr.fn)
		fr.setResult(instr, fr.freshResults(c.Signature(), st, reach))
	}
	return reach
}

// append(s, t...) : value semantics (always a fresh backing array).
func (fr *frame) appendCall(instr *ssa.Call, c *ssa.CallCommon, args []Val, st *State, reach string) {
	ft := fr.ft
	u := ft.e.u
	stype := c.Args[0].Type().Underlying().(*types.Slice)
	h, es := u.elemHeap(stype.Elem())
	s := ft.termOf(args[0], c.Args[0].Type())
	r := ft.newRef(st, "appended", reach)
	heap := ft.heapTerm(st, h)
	sArr := ft.define("app_s", arraySort(SInt, es), sel(heap, sx("sbase", s.S)))
	sLen := ft.define("app_slen", SInt, sx("slen", s.S))
	var tLen, tAt string // tAt: function of j giving t[j-sLen]
	if _, isStr := c.Args[1].Type().Underlying().(*types.Basic); isStr {
		// append([]byte, string...)
		t := ft.termOf(args[1], c.Args[1].Type())
		u.declFun("strbyte", "(declare-fun strbyte (Str Int) Int)")
		tLen = sx("strlen", t.S)
		tAt = fmt.Sprintf("(strbyte %s (- j %s))", t.S, sLen)
	} else {
		t := ft.termOf(args[1], c.Args[1].Type())
		tArr := ft.define("app_t", arraySort(SInt, es), sel(heap, sx("sbase", t.S)))
		tLen = ft.define("app_tlen", SInt, sx("slen", t.S))
		tAt = fmt.Sprintf("(select %s (ix %s (- j %s)))", tArr, t.S, sLen)
	}
	na := ft.fresh("app_arr", arraySort(SInt, es))
	total := ft.define("app_len", SInt, sx("+", sLen, tLen))
	ft.assume("true", fmt.Sprintf(
		"(forall ((j Int)) (! (=> (and (<= 0 j) (< j %s)) (= (select %s j) (ite (< j %s) (select %s (ix %s j)) %s))) :pattern ((select %s j))))",
		total, na, sLen, sArr, s.S, tAt, na))
	cp := ft.fresh("app_cap", SInt)
	ft.assume("true", sx(">=", cp, total))
	base := ite(and(eq(total, "0"), eq(sx("sbase", s.S), "null")), "null", r)
	freshRes := sx("mk-slice", base, "0", total, ite(eq(base, "null"), "0", cp))
	if os.Getenv("GOVC_APPEND_INPLACE") == "" {
		// default model: always a fresh backing array (value semantics); exact
		// unless an in-place append overwrites elements another live slice views,
		// which the alias/append obligations of verify.go exclude
		ft.setHeap(st, h, store(ft.heapTerm(st, h), r, na))
		res := ft.define("appended", SSlice, freshRes)
		fr.setResult(instr, Val{T: Term{res, SSlice}})
		return
	}
	// Go semantics: if the capacity suffices the elements are written behind
	// len(s) into the backing array of s (visible through every slice sharing
	// it), otherwise a fresh array is allocated. Sources are read before writing.
	fits := ft.define("app_fits", SBool, and(not(eq(sx("sbase", s.S), "null")), sx("<=", total, sx("scap", s.S))))
	lo := ft.define("app_lo", SInt, sx("ix", s.S, sLen))
	hi := ft.define("app_hi", SInt, sx("ix", s.S, total))
	var tAbs string
	if _, isStr := c.Args[1].Type().Underlying().(*types.Basic); isStr {
		t := ft.termOf(args[1], c.Args[1].Type())
		tAbs = fmt.Sprintf("(strbyte %s (- j %s))", t.S, lo)
	} else {
		t := ft.termOf(args[1], c.Args[1].Type())
		tAbs = fmt.Sprintf("(select %s (ix %s (- j %s)))", sel(heap, sx("sbase", t.S)), t.S, lo)
	}
	ia := ft.fresh("app_inplace", arraySort(SInt, es))
	ft.assume("true", fmt.Sprintf("(forall ((j Int)) (! (= (select %s j) (ite (and (<= %s j) (< j %s)) %s (select %s j))) :pattern ((select %s j))))", ia, lo, hi, tAbs, sArr, ia))
	cur := ft.heapTerm(st, h)
	ft.setHeap(st, h, ite(fits, store(cur, sx("sbase", s.S), ia), store(cur, r, na)))
	res := ft.define("appended", SSlice, ite(fits, sx("mk-slice", sx("sbase", s.S), sx("soff", s.S), total, sx("scap", s.S)), freshRes))
	fr.setResult(instr, Val{T: Term{res, SSlice}})
}

// checkPreOnly: generate the pre obligations of a possible callee without applying its contract.
func (fr *frame) checkPreOnly(callee *ssa.Function, c *ssa.CallCommon, args, bindings []Val, st *State, reach string, pos token.Pos) {
	e := fr.ft.e
	fc := e.contractOf(callee)
	if fc == nil || len(fc.Requires) == 0 {
		return
	}
	env := e.calleeEnv(fr, fc, callee, c, args, bindings)
	env.old = st
	env.cur = st
	for _, l := range fc.Lets {
		if v, err := env.eval(l.E); err == nil {
			env.vars[l.Label] = v
		}
	}
	for _, r := range fc.Requires {
		if r.E == nil || r.Hypothesis {
			continue
		}
		goal, err := env.evalBool(r.E)
		if err != nil {
			e.contractError(r, err)
			continue
		}
		fr.oblig("pre", r.Props, pos, fmt.Sprintf("%s requires %s", shortFuncName(callee), r.name()), reach, goal)
	}
}

// havocStableForExc: ghosts that are stable on normal return are not stable on
// the exceptional edge of a call.
func (fr *frame) havocStableForExc(xs *State, ms map[string]int) {
	ft := fr.ft
	for _, h := range sortedKeys(ms) {
		if ms[h] == 0 || !strings.HasPrefix(h, "G$ghost$") {
			continue
		}
		if g := ft.e.cs.Ghosts[strings.TrimPrefix(h, "G$ghost$")]; g != nil && g.StableOnReturn {
			ft.havocHeap(xs, h)
		}
	}
}

// boundTarget: the method behind a bound-method wrapper (s.m used as a value).
func boundTarget(f *ssa.Function) *ssa.Function {
	if f == nil || !strings.HasPrefix(f.Synthetic, "bound method wrapper") {
		return nil
	}
	for _, b := range f.Blocks {
		for _, ins := range b.Instrs {
			if c, ok := ins.(ssa.CallInstruction); ok {
				if sc := c.Common().StaticCallee(); sc != nil {
					return sc
				}
			}
		}
	}
	return nil
}

// hasCheckedRequires: does the contract carry a precondition callers must
// establish (hypothesis clauses are entry assumptions, not checked at callers)?
func hasCheckedRequires(fc *FuncContract) bool {
	for _, r := range fc.Requires {
		if !r.Hypothesis {
			return true
		}
	}
	return false
}
