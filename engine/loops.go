package main

import (
	"fmt"
	"go/token"
	"sort"
	"strings"

	"golang.org/x/tools/go/ssa"
)

type loop struct {
	header  *ssa.BasicBlock
	body    map[*ssa.BasicBlock]bool
	ordinal int // 1-based, by source position of header
	pos     token.Pos
	parent  *loop
	// per activation data
	phiVals  map[*ssa.Phi]string
	entryState *State // state in which the loop was entered (before the havoc)
	entryPhis  map[*ssa.Phi]Val // values of the header phis on entry
	iterState  *State           // state at the head of an arbitrary iteration (after the havoc)
	iterPhis   map[*ssa.Phi]Val // values of the header phis at the head of that iteration
}

type loopInfo struct {
	headers map[*ssa.BasicBlock]*loop
	loops   []*loop
	order   []*ssa.BasicBlock // reverse post-order ignoring back edges
	back    map[[2]int]bool
}

func (li *loopInfo) isBackEdge(from, to *ssa.BasicBlock) bool {
	return li.back[[2]int{from.Index, to.Index}]
}

func findLoops(fn *ssa.Function) *loopInfo {
	li := &loopInfo{headers: map[*ssa.BasicBlock]*loop{}, back: map[[2]int]bool{}}
	// back edges: b -> h where h dominates b
	for _, b := range fn.Blocks {
		for _, s := range b.Succs {
			if s.Dominates(b) {
				li.back[[2]int{b.Index, s.Index}] = true
				lp := li.headers[s]
				if lp == nil {
					lp = &loop{header: s, body: map[*ssa.BasicBlock]bool{s: true}}
					li.headers[s] = lp
					li.loops = append(li.loops, lp)
				}
				// natural loop: all nodes that reach b without passing h
				stack := []*ssa.BasicBlock{b}
				for len(stack) > 0 {
					x := stack[len(stack)-1]
					stack = stack[:len(stack)-1]
					if lp.body[x] {
						continue
					}
					lp.body[x] = true
					stack = append(stack, x.Preds...)
				}
			}
		}
	}
	// source position of a loop: smallest position of an instruction in the header
	// or, more robustly, the position of the 'for' statement = min pos over body instrs.
	for _, lp := range li.loops {
		lp.pos = token.NoPos
		for b := range lp.body {
			for _, ins := range b.Instrs {
				if _, isPhi := ins.(*ssa.Phi); isPhi {
					continue // a phi carries the position of the variable's declaration
				}
				if p := ins.Pos(); p.IsValid() && (lp.pos == token.NoPos || p < lp.pos) {
					lp.pos = p
				}
			}
		}
	}
	sort.Slice(li.loops, func(i, j int) bool { return li.loops[i].pos < li.loops[j].pos })
	for i, lp := range li.loops {
		lp.ordinal = i + 1
	}
	// parent loops
	for _, lp := range li.loops {
		for _, o := range li.loops {
			if o != lp && o.body[lp.header] && len(o.body) > len(lp.body) {
				if lp.parent == nil || len(o.body) < len(lp.parent.body) {
					lp.parent = o
				}
			}
		}
	}
	// topological order ignoring back edges
	seen := map[*ssa.BasicBlock]bool{}
	var post []*ssa.BasicBlock
	var dfs func(b *ssa.BasicBlock)
	dfs = func(b *ssa.BasicBlock) {
		seen[b] = true
		for _, s := range b.Succs {
			if li.isBackEdge(b, s) || seen[s] {
				continue
			}
			dfs(s)
		}
		post = append(post, b)
	}
	if len(fn.Blocks) > 0 {
		dfs(fn.Blocks[0])
	}
	for i := len(post) - 1; i >= 0; i-- {
		li.order = append(li.order, post[i])
	}
	return li
}

// heaps possibly modified inside the loop body
func (fr *frame) loopModSet(lp *loop) map[string]int {
	ms := map[string]int{}
	e := fr.ft.e
	e.freshScope = lp.body
	defer func() { e.freshScope = nil }()
	own := map[string]int{}
	for b := range lp.body {
		for _, ins := range b.Instrs {
			isCalleeWrite := false
			if ci, ok := ins.(ssa.CallInstruction); ok {
				if _, isB := ci.Common().Value.(*ssa.Builtin); !isB || ci.Common().IsInvoke() {
					isCalleeWrite = true
				}
			}
			if !isCalleeWrite {
				e.instrWritesLevel(ins, own)
			}
		}
	}
	fr.loopOwnWrites = own
	for b := range lp.body {
		for _, ins := range b.Instrs {
			e.instrWritesLevel(ins, ms)
			if mc, ok := ins.(*ssa.MakeClosure); ok {
				for h, l := range e.modsets[mc.Fn.(*ssa.Function)] {
					if ms[h] < l {
						ms[h] = l
					}
				}
			}
			// calls of known closures defined outside the loop
			if ci, ok := ins.(ssa.CallInstruction); ok {
				c := ci.Common()
				if !c.IsInvoke() && c.StaticCallee() == nil {
					if _, isB := c.Value.(*ssa.Builtin); !isB {
						if v, ok := fr.vals[c.Value]; ok && v.Clo != nil {
							for h, l := range e.modsets[v.Clo.Fn] {
								if ms[h] < l {
									ms[h] = l
								}
							}
						}
					}
				}
			}
		}
	}
	// ghost assignments attached to call sites inside the loop
	if fr.fc != nil {
		for _, a := range fr.fc.Asserts {
			if a.Kind != "assign" || a.E == nil {
				continue
			}
			if a.Occ == -1 {
				for b := range lp.body {
					for _, ins := range b.Instrs {
						if fr.isSiteInstr(ins) && fr.isAssertSite(a, ins) {
							ms[e.ghostHeap(a.Label)] = modAny
						}
					}
				}
				continue
			}
			if t := fr.assertTarget(a); t != nil && lp.body[t.Block()] {
				ms[e.ghostHeap(a.Label)] = modAny
			}
		}
	}
	return ms
}

// enterLoop: check invariants on entry edges, havoc loop targets, assume invariants.
func (fr *frame) enterLoop(lp *loop, edges []inEdge, label string) (string, *State) {
	ft := fr.ft
	u := ft.e.u
	b := lp.header
	// entry state = merge of entry edges
	reach, st := fr.mergeEdges(edges, label+"_entry")
	reach = ft.define("reach_"+label, SBool, reach)
	lp.entryState = st.clone()
	invs := fr.loopInvariantsBound(lp)
	// entry values of phis
	entryVals := map[*ssa.Phi]Val{}
	for _, ins := range b.Instrs {
		phi, ok := ins.(*ssa.Phi)
		if !ok {
			break
		}
		entryVals[phi] = fr.phiValue(phi, edges)
	}
	lp.entryPhis = entryVals
	// check invariants on entry
	for _, inv := range invs {
		for phi, v := range entryVals {
			fr.vals[phi] = v
		}
		goal, err := inv.eval(fr, st, lp)
		if err != nil {
			ft.e.contractError(inv.Clause, err)
			continue
		}
		fr.oblig("inv-entry", inv.Props, lp.pos, fmt.Sprintf("loop%d: %s", lp.ordinal, inv.name()), reach, goal)
	}
	// havoc
	ms := fr.loopModSet(lp)
	// what escaped in an earlier iteration stays escaped: $esc only grows in the loop
	{
		escEntry := ft.heapTerm(st, escHeap)
		escHdr := ft.fresh("$esc", arraySort(SRef, SBool))
		ft.assume("true", fmt.Sprintf("(forall ((r Ref)) (! (=> (select %s r) (select %s r)) :pattern ((select %s r))))", escEntry, escHdr, escHdr))
		st.heaps[escHeap] = escHdr
		// a local variable whose address is only dereferenced (loaded from,
		// stored to, merged in phis) is never handed out: it stays private
		for _, a := range privateAllocs(fr.fn) {
			if v, ok := fr.vals[a]; ok && v.T.S != "" && v.T.Sort == SRef {
				ft.assume("true", not(sel(escHdr, v.T.S)))
			}
		}
	}
	// heaps written in the loop only by callees: objects this function
	// allocated and that never escaped (also not in an earlier iteration) keep
	// their content; heaps written by the loop's own instructions are havocked
	calleeOnly := map[string]int{}
	ownAndAll := map[string]int{}
	for h, l := range ms {
		if fr.loopOwnWrites[h] == 0 && !strings.HasPrefix(h, "G$ghost$") && h != allocHeap && !strings.HasPrefix(h, "V$") {
			calleeOnly[h] = l
		} else {
			ownAndAll[h] = l
		}
	}
	fr.havocLevels(st, ownAndAll, false)
	fr.havocLevels(st, calleeOnly, true)
	for _, ins := range b.Instrs {
		phi, ok := ins.(*ssa.Phi)
		if !ok {
			break
		}
		s := u.sortOf(phi.Type())
		name := phi.Comment
		if name == "" {
			name = phi.Name()
		}
		v := Term{ft.fresh(name, s), s}
		nv := Val{T: v}
		// closures do not change in loops we support
		if ev := entryVals[phi]; ev.Clo != nil {
			nv.Clo = ev.Clo
		}
		fr.vals[phi] = nv
		ft.assumeAllocated(st, reach, v)
		fr.assumeTypeRange(v, phi.Type())
	}
	// automatic invariants: an integer header phi whose back-edge value is
	// phi+c (c>0) never drops below its entry value; phi-c never exceeds it
	for _, ins := range b.Instrs {
		phi, ok := ins.(*ssa.Phi)
		if !ok {
			break
		}
		if u.sortOf(phi.Type()) != SInt {
			continue
		}
		ev, ok := entryVals[phi]
		if !ok || ev.T.S == "" {
			continue
		}
		dir := 0
		okAll := true
		for j, p := range b.Preds {
			if !(lp.body[p] && fr.loops.isBackEdge(p, b)) {
				continue
			}
			bo, isBin := phi.Edges[j].(*ssa.BinOp)
			if !isBin {
				okAll = false
				break
			}
			c, isConst := bo.Y.(*ssa.Const)
			if bo.X != ssa.Value(phi) || !isConst || c.Value == nil {
				okAll = false
				break
			}
			k := c.Int64()
			d := 0
			switch {
			case bo.Op == token.ADD && k > 0, bo.Op == token.SUB && k < 0:
				d = 1
			case bo.Op == token.SUB && k > 0, bo.Op == token.ADD && k < 0:
				d = -1
			default:
				okAll = false
			}
			if dir != 0 && d != dir {
				okAll = false
			}
			dir = d
		}
		if okAll && dir != 0 {
			cur := fr.vals[phi].T.S
			if dir > 0 {
				ft.assume(reach, sx(">=", cur, ev.T.S))
			} else {
				ft.assume(reach, sx("<=", cur, ev.T.S))
			}
		}
	}
	// assume invariants
	for _, inv := range invs {
		fact, err := inv.eval(fr, st, lp)
		if err != nil {
			continue
		}
		ft.assume(reach, fact)
	}
	lp.iterState = st.clone()
	lp.iterPhis = map[*ssa.Phi]Val{}
	for _, ins := range b.Instrs {
		phi, ok := ins.(*ssa.Phi)
		if !ok {
			break
		}
		lp.iterPhis[phi] = fr.vals[phi]
	}
	return reach, st
}

func (fr *frame) checkLoopStep(lp *loop, from *ssa.BasicBlock, cond string, st *State) {
	ft := fr.ft
	b := lp.header
	invs := fr.loopInvariantsBound(lp)
	decrs := fr.loopClausesBound(lp, true)
	if len(invs) == 0 && len(decrs) == 0 {
		return
	}
	// bind phis to back-edge values
	saved := map[*ssa.Phi]Val{}
	idx := -1
	for j, p := range b.Preds {
		if p == from {
			idx = j
		}
	}
	for _, ins := range b.Instrs {
		phi, ok := ins.(*ssa.Phi)
		if !ok {
			break
		}
		saved[phi] = fr.vals[phi]
	}
	newVals := map[*ssa.Phi]Val{}
	for phi := range saved {
		newVals[phi] = Val{T: fr.term(phi.Edges[idx])}
	}
	for phi, v := range newVals {
		fr.vals[phi] = v
	}
	for _, inv := range invs {
		goal, err := inv.eval(fr, st, lp)
		if err != nil {
			ft.e.contractError(inv.Clause, err)
			continue
		}
		fr.oblig("inv-step", inv.Props, lp.pos, fmt.Sprintf("loop%d: %s", lp.ordinal, inv.name()), cond, goal)
	}
	// variants: "decreases T" - at every back edge T is smaller than at the
	// head of the iteration, where it was not negative
	for _, d := range decrs {
		goal, err := d.eval(fr, st, lp)
		if err != nil {
			ft.e.contractError(d.Clause, err)
			continue
		}
		fr.oblig("variant", d.Props, lp.pos, fmt.Sprintf("loop%d: decreases %s", lp.ordinal, d.name()), cond, goal)
	}
	for phi, v := range saved {
		fr.vals[phi] = v
	}
	// vacuity: the end of the loop body is reachable under the assumed
	// invariants (a contradictory invariant would prove every step); one
	// cover per loop over all its back edges, emitted by loopCoverObligations
	if fr.depth == 0 {
		if fr.loopCovers == nil {
			fr.loopCovers = map[*loop]*loopCover{}
		}
		lc := fr.loopCovers[lp]
		if lc == nil {
			lc = &loopCover{}
			fr.loopCovers[lp] = lc
			fr.loopCoverOrder = append(fr.loopCoverOrder, lp)
		}
		lc.conds = append(lc.conds, cond)
		for _, inv := range invs {
			for _, p := range inv.Props {
				lc.props = appendUniq(lc.props, p)
			}
		}
	}
}

type loopCover struct {
	conds []string
	props []string
}

func (fr *frame) loopCoverObligations() {
	for _, lp := range fr.loopCoverOrder {
		lc := fr.loopCovers[lp]
		o := fr.oblig("cover/loop", lc.props, lp.pos, fmt.Sprintf("loop%d: end of body reachable", lp.ordinal), or(lc.conds...), "true")
		o.Cover = true
	}
}

type boundInv struct {
	*Clause
	owner *frame // frame in whose scope the invariant is evaluated
}

func (fr *frame) loopInvariants(lp *loop) []*Clause {
	var out []*Clause
	for _, b := range fr.loopInvariantsBound(lp) {
		if b.owner == fr {
			out = append(out, b.Clause)
		}
	}
	return out
}

// loopInvariantsBound: invariants from the function's own contract plus
// invariants that a caller (an ancestor frame) supplies for the loops of this
// inlined callee ("invariant in CALLEE N ...").
func (fr *frame) loopInvariantsBound(lp *loop) []boundInv {
	return fr.loopClausesBound(lp, false)
}

func (fr *frame) loopClausesBound(lp *loop, decr bool) []boundInv {
	var out []boundInv
	list := func(fc *FuncContract) []*Clause {
		if decr {
			return fc.Decr
		}
		return fc.Invs
	}
	check := func(c *Clause) bool {
		if c.Header != "" {
			line := fr.ft.e.lineText(lp.pos)
			// "for {" loops: the first position inside the loop is the first statement of the body
			if !strings.Contains(line, c.Header) && !strings.Contains(fr.ft.e.sourceBefore(lp.pos, 2), c.Header) {
				// the loop was rewritten: its invariant no longer applies; the obligations
				// that depended on it decide (and report) the outcome
				fr.ft.note("invariant for loop %d of %s dropped: header %q does not match source %q", lp.ordinal, fr.fn.Name(), c.Header, line)
				// an invariant that no longer binds is an obligation that cannot be discharged
				fr.ft.e.contractError(c, fmt.Errorf("loop %d of %s: header %q does not match source %q", lp.ordinal, fr.fn.Name(), c.Header, strings.TrimSpace(line)))
				return false
			}
		}
		return true
	}
	if fr.fc != nil {
		for _, c := range list(fr.fc) {
			if c.Site == "" && c.Loop == lp.ordinal && check(c) {
				out = append(out, boundInv{c, fr})
			}
		}
	}
	name := fr.fn.Name()
	for a := fr.parent; a != nil; a = a.parent {
		if a.fc == nil {
			continue
		}
		for _, c := range list(a.fc) {
			if c.Site == name && c.Loop == lp.ordinal && check(c) {
				out = append(out, boundInv{c, a})
			}
		}
	}
	return out
}

func (b boundInv) eval(fr *frame, st *State, lp *loop) (string, error) {
	if b.owner == fr {
		saved, savedPhis := fr.curLoopEntry, fr.curLoopEntryPhis
		fr.curLoopEntry, fr.curLoopEntryPhis = lp.entryState, lp.entryPhis
		savedI, savedIP := fr.curIterState, fr.curIterPhis
		fr.curIterState, fr.curIterPhis = lp.iterState, lp.iterPhis
		defer func() {
			fr.curLoopEntry, fr.curLoopEntryPhis = saved, savedPhis
			fr.curIterState, fr.curIterPhis = savedI, savedIP
		}()
		return fr.evalBool(b.E, st, fr.entry, lp.header)
	}
	// evaluated with the names of the supplying caller, in the current state
	return b.owner.evalBool(b.E, st, b.owner.entry, nil)
}

// privateAllocs: allocations of local variables whose address never leaves the
// function: every use (through phis) is the address operand of a load or a
// store, or debug information.
func privateAllocs(fn *ssa.Function) []*ssa.Alloc {
	var out []*ssa.Alloc
	for _, b := range fn.Blocks {
		for _, ins := range b.Instrs {
			a, ok := ins.(*ssa.Alloc)
			if !ok {
				continue
			}
			seen := map[ssa.Value]bool{}
			private := true
			var visit func(v ssa.Value)
			visit = func(v ssa.Value) {
				if seen[v] || !private {
					return
				}
				seen[v] = true
				refs := v.Referrers()
				if refs == nil {
					private = false
					return
				}
				for _, r := range *refs {
					switch u := r.(type) {
					case *ssa.UnOp:
						if u.Op != token.MUL {
							private = false
						}
					case *ssa.Store:
						if u.Val == v {
							private = false // the address itself is stored somewhere
						}
					case *ssa.Phi:
						visit(u)
					case *ssa.DebugRef:
					default:
						private = false
					}
				}
			}
			visit(a)
			if private {
				out = append(out, a)
			}
		}
	}
	return out
}
