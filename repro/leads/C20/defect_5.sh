#!/bin/bash
# Defect 5 (C20, explicit panic): ASA "ldap attribute-map" sub-command
#   map-value memberOf "CN=... GROUP      (closing double quote missing / line truncated -
# word-prefix truncation of any map-value line of testdata/asa_parse.t)
# makes matchCmd call panic(fmt.Errorf("Incomplete string in: ...")) (pkg/cisco/parse.go:457).
# This is not an errlog.Abort bailout, HandleAbort re-panics: Go stack trace, exit status 2.
# Upstream's own test "Incomplete string" documents the panic (its harness catches it and
# prints "panic: ..."), but the real binary dies with status 2, which C20 forbids.
# Same pattern: malformed JSON in NETSPOCFILE.info -> panic(err) in codefiles.LoadInfoFile
# (test "Bad info file" in testdata/drc.t); shown second.
. "$(dirname "$0")/common.inc"
cd "$T"
cat > dev <<'END'
ldap attribute-map LDAPMAP
 map-name memberOf Group-Policy
 map-value memberOf "CN=g-m1,OU=VPN,DC=example,DC=com VPN-group-G1
END
: > spoc
echo '{"model":"ASA","name_list":["router"],"ip_list":["10.1.13.33"]}' > spoc.info
echo "--- incomplete string"
LINES_SHOWN=4 run -q dev spoc
echo "--- garbage info file"
echo 'NO_JSON' > spoc.info
LINES_SHOWN=4 run -q dev spoc
