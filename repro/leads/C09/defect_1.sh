#!/bin/bash
# defect_1.sh - Property C09 violation (PAN-OS, malformed reply at configuration retrieval)
#
# The device answers the request "type=config&action=get&xpath=/config/devices"
# with a syntactically valid, successful but empty reply
#     <response status="success" code="7"><result/></response>
# (PAN-OS really uses code 7 "object not present" with status="success" when an
# xpath selects nothing, e.g. for an admin role without access to /config/devices).
# panos.(*PanConfig).getDevName dereferences c.Devices.Entries[0] without a check,
# so do-approve dies with a Go runtime panic (nil pointer dereference; with
# <result><devices/></result> it is "index out of range [0]").
# The panic is not a errlog bailout, so HandleAbort re-panics and doapprove.Main
# never reaches status.SetApprove / logHistory("END:").
#
# Violation of C09: after a malformed reply the program must record
# FAILED (approve) / DIFF (compare) in the status file and write "END: FAILED"
# to the history. Observed: exit code 2 with a goroutine dump, status file
# keeps the OLD result "OK" of a previous policy (or is not created at all),
# history has START:/POLICY: but no END: line.
set -u
BIN=${BIN:-}
if [ -z "$BIN" ]; then
    BIN=/tmp/C09a-scratch/do-approve
    if [ ! -x "$BIN" ]; then
        ( cd /tmp/wt/C09a/go && export GOFLAGS=-mod=mod GOPROXY=off GOSUMDB=off GOTOOLCHAIN=local &&
          go build -o "$BIN" ./cmd/do-approve ) || exit 1
    fi
fi
T=$(mktemp -d)
trap 'kill $SIM 2>/dev/null; rm -rf "$T"' EXIT
cd "$T"
mkdir -p policies/p2/code lock status history
ln -s p2 policies/current
cat > policies/p2/code/router.info <<'X'
{"model":"PAN-OS","name_list":["router"],"ip_list":["10.1.13.33"]}
X
cat > policies/p2/code/router <<'X'
<config><devices><entry name="localhost.localdomain"><vsys><entry name="vsys1">
</entry></vsys></entry></devices></config>
X
echo '* admin secret' > credentials
cat > .netspoc-approve <<X
basedir = $T
systemuser = admin
timeout = 2
X
# Result of an earlier, successful approve of policy p1.
echo '{"approve":{"result":"OK","policy":"p1","time":1},"compare":{"result":"UPTODATE","policy":"p1","time":1}}' > status/router

cat > sim.py <<'X'
import sys, http.server, urllib.parse
class H(http.server.BaseHTTPRequestHandler):
    def log_message(self, *a): pass
    def do_GET(self):
        q = urllib.parse.unquote(self.path)
        if 'type=keygen' in q:
            b = "<response status='success'><result><key>LUFRPT=</key></result></response>"
        elif 'high-availability' in q:
            b = "<response status='success'><result><enabled>no</enabled></result></response>"
        elif 'action=get' in q:
            b = '<response status="success" code="7"><result/></response>'
        else:
            b = '<response status="error"><msg>unexpected request</msg></response>'
        self.send_response(200); self.end_headers(); self.wfile.write(b.encode())
s = http.server.HTTPServer(('127.0.0.1', 0), H)
print(s.server_address[1], flush=True)
s.serve_forever()
X
python3 sim.py > port & SIM=$!
for i in $(seq 50); do [ -s port ] && break; sleep 0.1; done
export SIMULATE_ROUTER=http://127.0.0.1:$(cat port) HOME=$T
for action in approve compare; do
    echo "=== do-approve $action router"
    "$BIN" $action router 2>&1 | head -12
    echo "exit code: ${PIPESTATUS[0]}"
done
echo "=== status/router (expected approve FAILED for p2 / compare DIFF; observed: stale OK/UPTODATE of p1)"
cat status/router; echo
echo "=== history/router (expected END: FAILED lines; observed: none)"
cat history/router
