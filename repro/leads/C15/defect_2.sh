#!/bin/bash
# Property C15 violation 2:
# A reload banner shown directly BEHIND the echo of the first command of a
# two-command packet ("no ip route X\nip route X'") makes the run fail,
# although the device accepted both commands.
#
# Mechanism: ios.stripReloadBanner, branch "Found banner after output", calls
# console.TryPrompt() to swallow an optional extra prompt. TryPrompt matches the
# (unanchored) standard prompt anywhere in the buffer and therefore swallows
# echo + prompt of the SECOND command, which is already there because both
# commands were sent in one packet. check(c2) then waits for a prompt that was
# already consumed -> timeout -> Abort. (With 1:00 banner the reload is
# not re-armed either, because Abort happens before extendReload.)
#
# Banner form: "command\BANNER2/", taken from the project's own test.
# Expected by property: exit 0, write memory. Observed: timeout error, exit 1.
set -u
REPO=${REPO:-/tmp/wt/C15a}
export GOFLAGS=-mod=mod GOPROXY=off GOSUMDB=off GOTOOLCHAIN=local
W=$(mktemp -d)
trap 'rm -rf "$W"' EXIT
DRC=${DRC:-${BIN:-}}
if [ -z "$DRC" ]; then
    (cd "$REPO/go" && go build -o "$W/drc" ./cmd/drc) || exit 2
    DRC=$W/drc
fi
SIM=${SIM:-$REPO/go/testdata/simulate-cisco.pl}
mkdir -p "$W/code" "$W/log" "$W/lock" "$W/status" "$W/history"
echo '{"model":"IOS","name_list":["router"],"ip_list":["10.1.13.33"]}' > "$W/code/router.info"
echo '* admin secret' > "$W/credentials"
printf 'basedir = %s\ncheckbanner = NetSPoC\nsystemuser = admin\ntimeout = 2\n' "$W" > "$W/.netspoc-approve"

# Standard IOS dialogue, identical to template std_scenario of go/testdata/ios_simul.t
std_scenario() {
printf '%s\n' \
'Enter Password:<!>' \
'banner motd  managed by NetSPoC' \
'router>' \
'# sh ver' \
'Cisco IOS Software, C2900 Software (C2900-UNIVERSALK9-M), Version 15.1(4)M4,' \
'# configure terminal' \
'Enter configuration commands, one per line.  End with CNTL/Z.' \
'# reload in 2' \
'' \
'System configuration has been modified. Save? [yes/no]: <!>' \
'Reload reason: Reload Command' \
'Proceed with reload? [confirm]<!>' \
'# reload cancel' \
'' \
'' \
'***' \
'*** --- SHUTDOWN ABORTED ---' \
'***' \
'# write memory' \
'Building configuration...' \
'  Compressed configuration from 106098 bytes to 30504 bytes[OK]'
}
# Banner definitions, byte-identical to those of test
# "Conf mode, reload banner, small change, write mem" in go/testdata/ios_simul.t
banners() {
printf '# \\BANNER2/\n\n\n\n\007***\n*** --- SHUTDOWN in 0:02:00 ---\n***\n'
printf '# \\BANNER2_prompt/\n\n\n\n\n\n\007***\n*** --- SHUTDOWN in 0:02:00 ---\n***\n\nrouter#\n'
printf '# \\BANNER1/\n\n\n\n\007***\n*** --- SHUTDOWN in 0:01:00 ---\n***\n'
}
run() {
    (cd "$W" && HOME=$W SIMULATE_ROUTER="$SIM router $W/scenario" "$DRC" -q -L "$W/log" code/router)
    echo "=== drc exit code: $?"
    echo "=== log/router.change (dialogue with device):"
    cat -v "$W/log/router.change"; echo
}
{ std_scenario; printf '# sh run\nip route 10.0.0.0 255.0.0.0 10.1.2.3\n'; banners
  printf '# no ip route 10.0.0.0 255.0.0.0 10.1.2.3\\BANNER2/\n'; } > "$W/scenario"
echo 'ip route 10.0.0.0 255.0.0.0 10.11.22.33' > "$W/code/router"
echo "##### with 2:00 banner directly behind echo of 'no ip route ...' (first half of two-command packet)"
run
echo "##### same with 1:00 banner"
{ std_scenario; printf '# sh run\nip route 10.0.0.0 255.0.0.0 10.1.2.3\n'; banners
  printf '# no ip route 10.0.0.0 255.0.0.0 10.1.2.3\\BANNER1/\n'; } > "$W/scenario"
run 2>&1 | grep -E "exit code|do reload|write memory|OK\]|ERROR"
echo "##### control: same change without banner"
{ std_scenario; printf '# sh run\nip route 10.0.0.0 255.0.0.0 10.1.2.3\n'; } > "$W/scenario"
run 2>&1 | grep -E "exit code|write memory|OK\]|ERROR"
