#!/bin/bash
# usage: mut.sh PROP file 'sed-expr'   -- apply a sed mutation to /repo/go/<file>, run the check, revert
P=$1; F=$2; E=$3
cd /repo && cp go/$F /tmp/mut.bak && sed -i "$E" go/$F
if cmp -s go/$F /tmp/mut.bak; then echo "MUTATION DID NOT APPLY"; fi
(cd go && GOFLAGS=-mod=mod GOPROXY=off GOSUMDB=off GOTOOLCHAIN=local go build ./... 2>&1 | head -5)
/verif/bin/govc check --property $P 2>&1 | grep -v "^KNOWN" | cut -c1-260 | tail -${4:-6}
cp /tmp/mut.bak go/$F
git -C /repo status --short | grep -v zz_contracts
