#!/bin/bash
# C03 defect (repaired by the "fix:" commit recorded in known-findings.txt):
# panos hasEqualizedLists emitted 'action=delete ... member' commands for a
# device address-group before it knew whether the nested groups can be
# equalised; on failure the group stayed unmarked with its old in-memory member
# list and was then taken as identical for another Netspoc group: device group G
# loses member IP_10.1.1.1 although the target rule r2 needs it, a second compare
# adds it again. Details and hand evaluation: leads/C03_partial_delete.sh.
# Exit 0 = no member delete is emitted for the kept group (repaired tree), 1 = defect present.
export GOFLAGS=-mod=mod GOPROXY=off GOSUMDB=off GOTOOLCHAIN=local
REPO=${GOVC_REPO:-/repo}
T=$(mktemp -d); trap 'rm -rf $T' EXIT
(cd $REPO/go && go build -o $T/drc ./cmd/drc) || exit 2
OUT=$(sh $(dirname $0)/leads/C03_partial_delete.sh $T/drc 2>&1)
FIRST=$(echo "$OUT" | sed -n '/=== drc -q device netspoc/,/=== exit status/p')
echo "$FIRST"
if echo "$FIRST" | grep -q "action=delete.*entry\[@name='G'\]/static/member"; then
  echo "DEFECT: member of G deleted although G is kept for a group that still has it"
  exit 1
fi
exit 0
