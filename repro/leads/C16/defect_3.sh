#!/bin/bash
# C16 violation 3 (ASA/IOS, pkg/cisco/parse.go checkReferences):
# References are checked by ranging over the Go maps lookup (prefix) and
# m (name); the first dangling reference found is returned as error.
# With two dangling references in a file (here: raw file; same for Netspoc
# file or device config) the error message differs between runs on identical
# input.  Exit status is 1 in every run; only the message varies.
# Usage: [DRC=/path/to/drc] [N=60] ./defect_3.sh
. "$(dirname "$0")/common.inc"
cd "$T"
echo '{"model":"ASA","name_list":["router"],"ip_list":["10.1.13.33"]}' > router.info
cat > dev <<'EOT'
interface Ethernet0/0
 nameif outside
EOT
cat > router <<'EOT'
access-list outside_in extended deny ip any4 any4
access-group outside_in in interface outside
EOT
cat > router.raw <<'EOT'
access-group acl1 in interface inside
group-policy VPN-group2 internal
group-policy VPN-group2 attributes
 vpn-filter value acl2
tunnel-group 1.1.1.2 type ipsec-l2l
tunnel-group 1.1.1.2 general-attributes
 default-group-policy VPN-group2
EOT
echo "== error messages of $N runs (expected by C16: one variant)"
for i in $(seq 1 $N); do "$DRC" -q dev router 2>&1; echo "rc=$?"; done | sort | uniq -c
