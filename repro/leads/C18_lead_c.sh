#!/bin/sh
# Lead (c), PAN-OS: raw file with two <vsys><entry name="vsys1"> entries.
#
# VERDICT: CONFIRMED DEFECT (unchanged code).
# go/pkg/panos/config.go processVsysPairs() builds  m[v.Name] = v  for the raw
# config, so of several raw vsys entries with the same name only the LAST one
# is found by  v2 := m2[v1.Name]  and merged.  The rules (and addresses,
# groups, services) of the earlier entry are dropped without any message.
#
# case 1 (Netspoc has vsys1 with rule r1; raw has vsys1 twice: rawA, rawB):
#   output contains "set ... rules/entry[@name='rawB']" and "...'r1'",
#   rule rawA is missing, no error, no warning, rc=0.
# case 2 (Netspoc file has no vsys1 at all): MergeSpoc appends BOTH raw vsys1
#   entries to p1, but the later diff again uses a name->vsys map: only rawB
#   is transferred, rawA is lost, no message.
# case 3 (related): a raw file with a second <devices><entry> element: only
#   Entries[0] is looked at (getDevVsysMap), rule rawB of the second entry is
#   lost, no message.
#
# Proposed fix: /tmp/inv1-scratch/lead_c.diff  (checkRaw() in parse.go, raw
# files only): reject duplicate vsys names and more than one <devices><entry>:
#   ERROR>>> While reading file router.raw: Duplicate vsys entry 'vsys1'
#   ERROR>>> While reading file router.raw: Must not use multiple entries in <devices>
# Test suite result identical to unpatched code.

DRC=${DRC:-/tmp/inv1-scratch/drc}
T=$(mktemp -d); cd "$T" || exit 1
show() { python3 -c "import sys,urllib.parse,re
for l in urllib.parse.unquote_plus(sys.stdin.read()).splitlines():
    m = re.search(r'xpath=\S*?(/vsys/[^&]*)&', l)
    print('  ' + (m.group(1) if m else l))"; }
rule() { cat <<EOF
<entry name="$1"><action>allow</action><from><member>z1</member></from><to><member>z2</member></to><source><member>any</member></source><destination><member>any</member></destination><service><member>any</member></service><application><member>any</member></application><rule-type>interzone</rule-type></entry>
EOF
}
rb() { echo "<rulebase><security><rules>$(rule $1)</rules></security></rulebase>"; }
P='<config><devices><entry name="localhost.localdomain"><vsys>'
Q='</vsys></entry></devices></config>'
echo '{"model":"PAN-OS","name_list":["router"],"ip_list":["10.1.13.33"]}' > router.info
echo "$P<entry name=\"vsys1\"></entry>$Q" > dev

echo "=== case 1: Netspoc vsys1{r1}; raw vsys1{rawA} + vsys1{rawB}   (rawA silently lost)"
echo "$P<entry name=\"vsys1\">$(rb r1)</entry>$Q" > router
echo "$P<entry name=\"vsys1\">$(rb rawA)</entry><entry name=\"vsys1\">$(rb rawB)</entry>$Q" > router.raw
$DRC -q dev router > out; rc=$?; show < out; echo "rc=$rc"

echo "=== case 2: Netspoc file empty; same raw   (rawA silently lost)"
: > router
$DRC -q dev router > out; rc=$?; show < out; echo "rc=$rc"

echo "=== case 3: raw with two <devices><entry>   (rawB of 2nd entry silently lost)"
echo "$P<entry name=\"vsys1\">$(rb r1)</entry>$Q" > router
echo "<config><devices><entry name=\"localhost.localdomain\"><vsys><entry name=\"vsys1\">$(rb rawA)</entry></vsys></entry><entry name=\"localhost.localdomain\"><vsys><entry name=\"vsys1\">$(rb rawB)</entry></vsys></entry></devices></config>" > router.raw
$DRC -q dev router > out; rc=$?; show < out; echo "rc=$rc"
rm -rf "$T"
