#!/bin/bash
# Property C15 violation 3:
# The "SHUTDOWN in 0:02:00" banner that IOS prints asynchronously right after
# 'reload in 2' has been confirmed is only tolerated if it shows up while a
# change command is processed (ios.cmd -> stripReloadBanner). If the banner
# and the fresh prompt printed behind it by 'logging synchronous' show up a
# little earlier - after the prompt that ends the 'reload in 2' dialogue and
# before the echo of the following 'configure terminal' - the run fails.
#
# Mechanism: ApplyCommands sends 'configure terminal' (and 'end') with
# Conn.SendCmd, which takes the FIRST prompt in the buffer, i.e. the one behind
# the banner. Echo and output of 'configure terminal' stay in the buffer, all
# later reads are shifted by one, and the first change command aborts with
# "Got unexpected echo", although the device accepted it silently.
#
# Simulation: output of 'reload in 2' is that of std_scenario, followed by
# prompt, banner (same bytes as \BANNER2/ of the project's tests); the
# simulator then prints the fresh prompt.
# Expected by property: banner before the echo of a command does not change the
# outcome (exit 0, write memory). Observed: ERROR "Got unexpected echo", exit 1,
# change active in running-config but not saved.
set -u
REPO=${REPO:-/tmp/wt/C15a}
export GOFLAGS=-mod=mod GOPROXY=off GOSUMDB=off GOTOOLCHAIN=local
W=$(mktemp -d)
trap 'rm -rf "$W"' EXIT
DRC=${DRC:-${BIN:-}}
if [ -z "$DRC" ]; then
    (cd "$REPO/go" && go build -o "$W/drc" ./cmd/drc) || exit 2
    DRC=$W/drc
fi
SIM=${SIM:-$REPO/go/testdata/simulate-cisco.pl}
mkdir -p "$W/code" "$W/log" "$W/lock" "$W/status" "$W/history"
echo '{"model":"IOS","name_list":["router"],"ip_list":["10.1.13.33"]}' > "$W/code/router.info"
echo '* admin secret' > "$W/credentials"
printf 'basedir = %s\ncheckbanner = NetSPoC\nsystemuser = admin\ntimeout = 2\n' "$W" > "$W/.netspoc-approve"

# Standard IOS dialogue, identical to template std_scenario of go/testdata/ios_simul.t
std_scenario() {
printf '%s\n' \
'Enter Password:<!>' \
'banner motd  managed by NetSPoC' \
'router>' \
'# sh ver' \
'Cisco IOS Software, C2900 Software (C2900-UNIVERSALK9-M), Version 15.1(4)M4,' \
'# configure terminal' \
'Enter configuration commands, one per line.  End with CNTL/Z.' \
'# reload in 2' \
'' \
'System configuration has been modified. Save? [yes/no]: <!>' \
'Reload reason: Reload Command' \
'Proceed with reload? [confirm]<!>' \
'# reload cancel' \
'' \
'' \
'***' \
'*** --- SHUTDOWN ABORTED ---' \
'***' \
'# write memory' \
'Building configuration...' \
'  Compressed configuration from 106098 bytes to 30504 bytes[OK]'
}
# Banner definitions, byte-identical to those of test
# "Conf mode, reload banner, small change, write mem" in go/testdata/ios_simul.t
banners() {
printf '# \\BANNER2/\n\n\n\n\007***\n*** --- SHUTDOWN in 0:02:00 ---\n***\n'
printf '# \\BANNER2_prompt/\n\n\n\n\n\n\007***\n*** --- SHUTDOWN in 0:02:00 ---\n***\n\nrouter#\n'
printf '# \\BANNER1/\n\n\n\n\007***\n*** --- SHUTDOWN in 0:01:00 ---\n***\n'
}
run() {
    (cd "$W" && HOME=$W SIMULATE_ROUTER="$SIM router $W/scenario" "$DRC" -q -L "$W/log" code/router)
    echo "=== drc exit code: $?"
    echo "=== log/router.change (dialogue with device):"
    cat -v "$W/log/router.change"; echo
}
{
printf '%s\n' \
'Enter Password:<!>' \
'banner motd  managed by NetSPoC' \
'router>' \
'# sh ver' \
'Cisco IOS Software, C2900 Software (C2900-UNIVERSALK9-M), Version 15.1(4)M4,' \
'# configure terminal' \
'Enter configuration commands, one per line.  End with CNTL/Z.' \
'# reload in 2' \
'' \
'System configuration has been modified. Save? [yes/no]: <!>' \
'Reload reason: Reload Command'
printf 'Proceed with reload? [confirm]<!>router#\n\n\n\007***\n*** --- SHUTDOWN in 0:02:00 ---\n***\n'
printf '%s\n' \
'# reload cancel' \
'' \
'' \
'***' \
'*** --- SHUTDOWN ABORTED ---' \
'***' \
'# write memory' \
'Building configuration...' \
'  Compressed configuration from 106098 bytes to 30504 bytes[OK]' \
'# sh run' \
'ip route 10.0.0.0 255.0.0.0 10.1.2.3'
} > "$W/scenario"
printf 'ip route 10.0.0.0 255.0.0.0 10.1.2.3\nip route 10.1.1.0 255.255.255.0 10.1.2.3\n' > "$W/code/router"
echo "##### 2:00 banner + fresh prompt directly behind the prompt that ends 'reload in 2'"
run
echo "##### control: same change, no banner"
{ std_scenario; printf '# sh run\nip route 10.0.0.0 255.0.0.0 10.1.2.3\n'; } > "$W/scenario"
run 2>&1 | grep -E "exit code|write memory|OK\]|ERROR"
