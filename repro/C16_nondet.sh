#!/bin/bash
# usage: C16_nondet.sh MODEL DEVICE_FILE NETSPOC_FILE [RUNS]
# Runs 'drc -q DEVICE code/router' (file compare, real binary built from /repo)
# RUNS times on byte-identical inputs. Exit 0 = nondeterminism reproduced
# (at least two different outputs), 1 = all outputs identical.
export GOFLAGS=-mod=mod GOPROXY=off GOSUMDB=off GOTOOLCHAIN=local
REPO=${GOVC_REPO:-/repo}; N=${4:-60}
T=$(mktemp -d); trap 'rm -rf $T' EXIT
(cd $REPO/go && go build -o $T/drc ./cmd/drc) || exit 2
mkdir -p $T/code; cp "$2" $T/device; cp "$3" $T/code/router
echo "{\"model\":\"$1\",\"name_list\":[\"router\"],\"ip_list\":[\"10.1.13.33\"]}" > $T/code/router.info
cd $T
for i in $(seq $N); do ./drc -q device code/router 2>&1 | md5sum; done | sort | uniq -c > $T/sums
cat $T/sums
if [ $(wc -l < $T/sums) -gt 1 ]; then echo "REPRODUCED: $(wc -l < $T/sums) different outputs in $N runs on identical input"; ./drc -q device code/router 2>&1 | head -12; exit 0; fi
./drc -q device code/router 2>&1 | head -8
exit 1
