#!/bin/bash
# Defect 2 (property C14): IOS ACL is rewritten in place, top-down, if old
# and new ACL have no line in common (diffCmds in go/pkg/cisco/diff.go,
# branch "No parts are equal": s.delCmds(al) then s.addCmds(bl) for the
# sub-commands of 'ip access-list extended').
#
# Old ACL: permit tcp host 10.0.11.111 host 10.9.9.1 eq 22   (Netspoc server -> device)
#          deny ip any any
# New ACL: permit tcp 10.0.11.0 0.0.0.255 host 10.9.9.1 eq 22
#          deny ip any any log
# ssh 10.0.11.111 -> 10.9.9.1 is permitted before and after; all other
# traffic is denied before and after.  Emitted commands:
#   ip access-list extended test
#   no permit tcp host 10.0.11.111 host 10.9.9.1 eq 22   <- ACL is now 'deny ip any any': management session locked out
#   no deny ip any any                                    <- ACL is now empty = permits everything: denied traffic opened
#   permit tcp 10.0.11.0 0.0.0.255 host 10.9.9.1 eq 22   <- implicit deny: only now closed again
#   deny ip any any log
# Every intermediate state violates the property.  As soon as a single line
# is common, the safe path (diffIOSACLs: add first, delete bottom-up) is used
# (compare test 'Change ACL, prevent lockout (1)' of ios_acl.t, which has the
# same lines except for the last one).  ASA is not affected: it creates a
# new ACL and switches the access-group in one command.
set -e
T=$(mktemp -d)
DRC=${DRC:-${BIN:-}}
if [ -z "$DRC" ]; then
  export GOFLAGS=-mod=mod GOPROXY=off GOSUMDB=off GOTOOLCHAIN=local
  (cd /tmp/wt/C14b/go && go build -o $T/drc ./cmd/drc)
  DRC=$T/drc
fi
cd $T
cat > dev <<'END'
ip access-list extended test
 permit tcp host 10.0.11.111 host 10.9.9.1 eq 22
 deny ip any any

interface Ethernet1
 ip access-group test in
END
cat > spoc <<'END'
ip access-list extended test
 permit tcp 10.0.11.0 0.0.0.255 host 10.9.9.1 eq 22
 deny ip any any log

interface Ethernet1
 ip access-group test in
END
echo '{"model":"IOS","name_list":["router"],"ip_list":["10.1.13.33"]}' > spoc.info
$DRC -q dev spoc | tee out
rc=0
if [ "$(sed -n 2p out)" = "no permit tcp host 10.0.11.111 host 10.9.9.1 eq 22" ]; then
  echo "VIOLATION reproduced: old lines are deleted top-down before new lines are added"
  rc=1
else
  echo "not reproduced (fixed?)"
fi
rm -rf $T
exit $rc
