#!/bin/bash
# C02/C14 defect (repaired by the "fix:" commit recorded in known-findings.txt):
# an IOS ACL line that moves to the front of an insert run whose later lines
# have the other action, where the run is inserted directly in front of the
# (split) block the line comes from. diffIOSACLs suppressed the move as "inside
# its own block" although the new deny of the same run lands between the target
# position and the line: traffic 10.1.0.0/16 -> 10.9.9.9 that the target permits
# stays denied, and a second compare still reports a change.
# Exit 0 = the move is emitted and a second compare is clean (repaired tree),
# exit 1 = defect present.
export GOFLAGS=-mod=mod GOPROXY=off GOSUMDB=off GOTOOLCHAIN=local
REPO=${GOVC_REPO:-/repo}
T=$(mktemp -d); trap 'rm -rf $T' EXIT
(cd $REPO/go && go build -o $T/drc ./cmd/drc) || exit 2
mkdir -p $T/code
cat > $T/device <<'EOC'
interface Ethernet0
 ip access-group test in
ip access-list extended test
 permit ip host 10.0.0.2 any
 remark servers
 permit ip host 10.0.0.3 any
 permit ip 10.1.0.0 0.0.255.255 any
 deny ip any any
EOC
cat > $T/code/router <<'EOC'
interface Ethernet0
 ip access-group test in
ip access-list extended test
 permit ip host 10.0.0.2 any
 permit ip 10.1.0.0 0.0.255.255 any
 deny ip any host 10.9.9.9
 remark servers
 permit ip host 10.0.0.3 any
 deny ip any any
EOC
echo '{"model":"IOS","name_list":["router"],"ip_list":["10.1.13.33"]}' > $T/code/router.info
cd $T
OUT=$(./drc -q device code/router 2>&1)
echo "$OUT"
if echo "$OUT" | grep -q 'no 40000\\N 10001 permit ip 10.1.0.0 0.0.255.255 any'; then
  echo "move emitted in front of the new deny: device ends up equivalent to the target"
  exit 0
fi
echo "DEFECT: only the deny is inserted; 'permit ip 10.1.0.0 0.0.255.255 any' stays behind it"
exit 1
