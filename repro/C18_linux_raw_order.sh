#!/bin/bash
# C18: "the relative order inside each part is preserved".  Linux: several raw
# rules for one chain are each inserted at index 0 (or, for [APPEND] rules, each
# in front of the previously appended one), so they come out in reversed order.
# Exit 0 = defect reproduced, 1 = order preserved.
export GOFLAGS=-mod=mod GOPROXY=off GOSUMDB=off GOTOOLCHAIN=local
REPO=${GOVC_REPO:-/repo}
T=$(mktemp -d); trap 'rm -rf $T' EXIT
(cd $REPO/go && go build -o $T/drc ./cmd/drc) || exit 2
mkdir -p $T/code; cd $T
echo '{"model":"Linux","name_list":["router"],"ip_list":["10.1.13.33"]}' > code/router.info
: > device
cat > code/router <<EOC
*filter
:INPUT DROP
-A INPUT -j ACCEPT -s 10.1.1.1
-A INPUT -j DROP
EOC
cat > code/router.raw <<EOC
*filter
:INPUT DROP
-A INPUT -j ACCEPT -s 10.9.9.1
-A INPUT -j ACCEPT -s 10.9.9.2
[APPEND]
-A INPUT -j DROP -s 10.8.8.1
-A INPUT -j DROP -s 10.8.8.2
EOC
OUT=$(./drc -q device code/router 2>&1); ST=$?
echo "exit status $ST"; echo "$OUT" | grep -- "-A INPUT"
L=$(echo "$OUT" | grep -- "-A INPUT" | tr '\n' ' ')
if echo "$L" | grep -q "10.9.9.2.*10.9.9.1" || echo "$L" | grep -q "10.8.8.2.*10.8.8.1"; then echo "REPRODUCED: raw rules of one part come out in reversed order"; exit 0; fi
exit 1
