#!/bin/bash
# Reproduces the C13 known finding on the real binaries built from /repo.
# History: compare UPTODATE at p0 (t=100); approve OK at p1 (t=200, different code);
# new policy p2 whose code equals p0's; approve FAILED at p2 (t=300).
# The device still carries p1's code, so missing-approve must list it.
# Exit 0 = defect reproduced (device omitted), 1 = not reproduced.
set -e
export GOFLAGS=-mod=mod GOPROXY=off GOSUMDB=off GOTOOLCHAIN=local
REPO=${GOVC_REPO:-/repo}
T=$(mktemp -d)
trap 'rm -rf $T' EXIT
(cd $REPO/go && go build -o $T/missing-approve ./cmd/missing-approve)
mkdir -p $T/home/policies/p0/code $T/home/policies/p1/code $T/home/policies/p2/code $T/home/status
echo "code X" > $T/home/policies/p0/code/router
echo "code Y" > $T/home/policies/p1/code/router
echo "code X" > $T/home/policies/p2/code/router
ln -s p2 $T/home/policies/current
cat > $T/home/.netspoc-approve <<EOC
basedir = $T/home
timeout = 1
EOC
# Status file exactly as status.SetCompare(p0,unchanged)@100, SetApprove(p1,ok)@200,
# SetApprove(p2,failed)@300 leave it (each call rewrites its own slot only).
cat > $T/home/status/router <<EOS
{"approve":{"result":"FAILED","policy":"p2","time":300},"compare":{"result":"UPTODATE","policy":"p0","time":100}}
EOS
OUT=$(HOME=$T/home $T/missing-approve 2>/dev/null || true)
echo "missing-approve printed: '$OUT'"
if [ -z "$OUT" ]; then echo "REPRODUCED: device router omitted although it carries p1's code"; exit 0; fi
exit 1
