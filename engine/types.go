package main

// Mapping of Go types to SMT sorts, struct datatypes and heap components.
//
// Memory model (component-wise, Burstall/Bornat):
//   - every pointer, map, func, chan, interface value is a Ref
//   - field f of struct type T lives in heap  H$T$f : (Array Ref F)
//   - a struct-typed field (by value, incl. embedded structs) is a
//     sub-object with its own identity  sub$T$f(r) : Ref
//   - elements of slices/arrays of element type E live in
//     E$E : (Array Ref (Array Int E')), slice value = (base, off, len, cap)
//   - maps: M$K$V$dom : (Array Ref (Array K Bool)), M$K$V$val
//   - escaping local cells (*int etc.): C$T : (Array Ref T)
//   - package level variables: G$pkg$name
//   - struct values (by value) are SMT datatypes

import (
	"hash/fnv"
	"fmt"
	"go/types"
	"sort"
	"strings"
)

type Sort string

const (
	SInt   Sort = "Int"
	SBool  Sort = "Bool"
	SStr   Sort = "Str"
	SRef   Sort = "Ref"
	SSlice Sort = "Slice"
	SReal  Sort = "Real"
)

type Term struct {
	S    string
	Sort Sort
}

func (t Term) String() string { return t.S }

type structInfo struct {
	name   string // mangled
	sort   Sort
	typ    *types.Struct
	fields []fieldInfo
	order  int
}

type fieldInfo struct {
	name string
	typ  types.Type
	sort Sort
}

// Universe collects everything that must be declared in the SMT prelude.
type Universe struct {
	structs    map[string]*structInfo // by mangled name
	structList []*structInfo
	heaps      map[string]Sort // heap name -> sort
	funs       map[string]string // uninterpreted function name -> declaration
	funOrder   []string
	lits       map[string]string // string literal -> const name
	litList    []string
	typeIDs    map[string]int
	axioms     []string
	axiomOwner []string
	axiomSeen  map[string]bool
}

func newUniverse() *Universe {
	return &Universe{
		structs:   map[string]*structInfo{},
		heaps:     map[string]Sort{},
		funs:      map[string]string{},
		lits:      map[string]string{},
		typeIDs:   map[string]int{},
		axiomSeen: map[string]bool{},
	}
}

// sprintfUF: the uninterpreted function standing for fmt.Sprintf with one
// constant format and operands of the given sorts.
func (u *Universe) sprintfUF(format string, sorts []Sort) string {
	h := fnv.New32a()
	h.Write([]byte(format))
	var ss []string
	name := fmt.Sprintf("ext$sprintf$%08x", h.Sum32())
	for _, s := range sorts {
		ss = append(ss, string(s))
		name += "$" + string(s)
	}
	if len(sorts) == 0 {
		u.declFun(name, fmt.Sprintf("(declare-const %s Str)", name))
	} else {
		u.declFun(name, fmt.Sprintf("(declare-fun %s (%s) Str)", name, strings.Join(ss, " ")))
	}
	return name
}

func mangle(s string) string {
	s = strings.ReplaceAll(s, "github.com/hknutzen/Netspoc-Approve/go/pkg/", "")
	s = strings.ReplaceAll(s, "github.com/hknutzen/Netspoc-Approve/go/cmd/", "cmd_")
	var b strings.Builder
	for _, r := range s {
		switch {
		case r >= 'a' && r <= 'z', r >= 'A' && r <= 'Z', r >= '0' && r <= '9', r == '_', r == '.':
			b.WriteRune(r)
		case r == '*':
			b.WriteString("P_")
		case r == '[':
			b.WriteString("L_")
		case r == ']':
			b.WriteString("_J")
		case r == ' ':
		default:
			b.WriteString("_")
		}
	}
	return b.String()
}

func typeName(t types.Type) string {
	return mangle(types.TypeString(t, nil))
}

func (u *Universe) typeID(t types.Type) int {
	n := types.TypeString(t, nil)
	if id, ok := u.typeIDs[n]; ok {
		return id
	}
	id := len(u.typeIDs) + 1
	u.typeIDs[n] = id
	return id
}

func arraySort(k, v Sort) Sort { return Sort(fmt.Sprintf("(Array %s %s)", k, v)) }

// sortOf maps a Go type to its SMT value sort.
func (u *Universe) sortOf(t types.Type) Sort {
	switch tt := t.(type) {
	case *types.Named:
		if st, ok := tt.Underlying().(*types.Struct); ok {
			return u.structSort(typeName(tt), st)
		}
		return u.sortOf(tt.Underlying())
	case *types.Alias:
		return u.sortOf(types.Unalias(tt))
	case *types.Basic:
		switch {
		case tt.Info()&types.IsBoolean != 0:
			return SBool
		case tt.Info()&types.IsInteger != 0:
			return SInt
		case tt.Info()&types.IsString != 0:
			return SStr
		case tt.Info()&types.IsFloat != 0:
			return SReal
		case tt.Kind() == types.UnsafePointer:
			return SRef
		case tt.Kind() == types.UntypedNil:
			return SRef
		}
		return SInt
	case *types.Pointer, *types.Map, *types.Chan, *types.Signature, *types.Interface:
		return SRef
	case *types.Slice:
		return SSlice
	case *types.Struct:
		return u.structSort(typeName(tt), tt)
	case *types.Array:
		return arraySort(SInt, u.sortOf(tt.Elem()))
	case *types.Tuple:
		return "Tuple"
	case *types.TypeParam:
		return SRef
	}
	return SRef
}

func (u *Universe) structSort(name string, st *types.Struct) Sort {
	if si, ok := u.structs[name]; ok {
		return si.sort
	}
	si := &structInfo{name: name, sort: Sort("S$" + name), typ: st}
	u.structs[name] = si
	for i := 0; i < st.NumFields(); i++ {
		f := st.Field(i)
		si.fields = append(si.fields, fieldInfo{name: f.Name(), typ: f.Type(), sort: u.sortOf(f.Type())})
	}
	si.order = len(u.structList)
	u.structList = append(u.structList, si)
	return si.sort
}

func (u *Universe) structOf(t types.Type) *structInfo {
	s := u.sortOf(t)
	if strings.HasPrefix(string(s), "S$") {
		return u.structs[string(s)[2:]]
	}
	return nil
}

func isStruct(t types.Type) bool {
	_, ok := t.Underlying().(*types.Struct)
	return ok
}

func (u *Universe) heap(name string, s Sort) string {
	if old, ok := u.heaps[name]; ok && old != s {
		panic(fmt.Sprintf("heap %s: sort %s vs %s", name, old, s))
	}
	u.heaps[name] = s
	return name
}

// fieldHeap returns the heap holding field f of struct type t (t is the struct type, not pointer).
func (u *Universe) fieldHeap(t types.Type, idx int) (string, Sort) {
	si := u.structOf(t)
	f := si.fields[idx]
	name := "H$" + si.name + "$" + f.name
	return u.heap(name, arraySort(SRef, f.sort)), f.sort
}

func (u *Universe) subFun(t types.Type, idx int) string {
	si := u.structOf(t)
	f := si.fields[idx]
	name := "sub$" + si.name + "$" + f.name
	u.declFun(name, fmt.Sprintf("(declare-fun %s (Ref) Ref)", name))
	inv := "own$" + si.name + "$" + f.name
	u.declFun(inv, fmt.Sprintf("(declare-fun %s (Ref) Ref)", inv))
	u.axiom(fmt.Sprintf("(forall ((r Ref)) (! (and (= (%s (%s r)) r) (not (= (%s r) null)) (= (refkind (%s r)) %d)) :pattern ((%s r))))",
		inv, name, name, name, u.typeID(types.NewPointer(t))*1000+idx+1, name))
	return name
}

func (u *Universe) elemHeap(elem types.Type) (string, Sort) {
	es := u.sortOf(elem)
	name := "E$" + typeName(elem)
	return u.heap(name, arraySort(SRef, arraySort(SInt, es))), es
}

func (u *Universe) cellHeap(t types.Type) (string, Sort) {
	s := u.sortOf(t)
	name := "C$" + typeName(t)
	return u.heap(name, arraySort(SRef, s)), s
}

func (u *Universe) mapHeaps(m *types.Map) (dom, val string, ks, vs Sort) {
	ks = u.sortOf(m.Key())
	vs = u.sortOf(m.Elem())
	base := "M$" + typeName(m.Key()) + "$" + typeName(m.Elem())
	dom = u.heap(base+"$dom", arraySort(SRef, arraySort(ks, SBool)))
	val = u.heap(base+"$val", arraySort(SRef, arraySort(ks, vs)))
	return
}

func (u *Universe) globalHeap(pkg, name string, t types.Type) (string, Sort) {
	s := u.sortOf(t)
	n := "G$" + mangle(pkg) + "$" + name
	return u.heap(n, s), s
}

func (u *Universe) declFun(name, decl string) {
	if _, ok := u.funs[name]; !ok {
		u.funs[name] = decl
		u.funOrder = append(u.funOrder, name)
	}
}

// axiom registers a global axiom; it is included in a query only if its
// owner symbol (the first function symbol applied in it that is declared in
// the universe, or given explicitly) occurs in the query.
func (u *Universe) axiom(a string) {
	if u.axiomSeen[a] {
		return
	}
	u.axiomSeen[a] = true
	u.axioms = append(u.axioms, a)
	owner := ""
	syms := map[string]bool{}
	symbols(a, syms)
	// prefer the most specific declared function symbol
	for _, n := range u.funOrder {
		if syms[n] {
			owner = n
			break
		}
	}
	if owner == "" {
		for _, cand := range []string{"strlen"} {
			if syms[cand] {
				owner = cand
			}
		}
	}
	u.axiomOwner = append(u.axiomOwner, owner)
}

func (u *Universe) strLit(s string) Term {
	if n, ok := u.lits[s]; ok {
		return Term{n, SStr}
	}
	n := fmt.Sprintf("lit%d", len(u.litList))
	u.lits[s] = n
	u.litList = append(u.litList, s)
	return Term{n, SStr}
}

// zero value of a sort / type
func (u *Universe) zero(t types.Type) Term {
	s := u.sortOf(t)
	return u.zeroSort(s, t)
}

func (u *Universe) zeroSort(s Sort, t types.Type) Term {
	switch s {
	case SInt:
		return Term{"0", SInt}
	case SBool:
		return Term{"false", SBool}
	case SStr:
		return u.strLit("")
	case SRef:
		return Term{"null", SRef}
	case SSlice:
		return Term{"nilslice", SSlice}
	case SReal:
		return Term{"0.0", SReal}
	}
	if strings.HasPrefix(string(s), "S$") {
		si := u.structs[string(s)[2:]]
		if len(si.fields) == 0 {
			return Term{"mk$" + si.name, s}
		}
		parts := []string{"mk$" + si.name}
		for _, f := range si.fields {
			parts = append(parts, u.zeroSort(f.sort, f.typ).S)
		}
		return Term{"(" + strings.Join(parts, " ") + ")", s}
	}
	if strings.HasPrefix(string(s), "(Array ") {
		if at, ok := t.Underlying().(*types.Array); ok {
			return Term{fmt.Sprintf("((as const %s) %s)", s, u.zero(at.Elem()).S), s}
		}
	}
	panic("zero: " + string(s))
}

// symbols returns the set of identifier-like tokens of an SMT text.
func symbols(text string, into map[string]bool) {
	start := -1
	for i := 0; i <= len(text); i++ {
		var c byte = ' '
		if i < len(text) {
			c = text[i]
		}
		if c == ' ' || c == '(' || c == ')' || c == '\n' || c == '\t' {
			if start >= 0 {
				into[text[start:i]] = true
				start = -1
			}
		} else if start < 0 {
			start = i
		}
	}
}

// preludeFor renders the declarations needed by the given query text
// (dependency closure over sorts, functions, literals and axioms).
func (u *Universe) preludeFor(text string) string {
	used := map[string]bool{}
	symbols(text, used)
	// fixpoint: functions/axioms pull in further symbols
	inclFun := map[string]bool{}
	inclAx := map[int]bool{}
	for changed := true; changed; {
		changed = false
		for _, n := range u.funOrder {
			if !inclFun[n] && used[n] {
				inclFun[n] = true
				symbols(u.funs[n], used)
				changed = true
			}
		}
		for i, a := range u.axioms {
			if inclAx[i] {
				continue
			}
			if used[u.axiomOwner[i]] {
				inclAx[i] = true
				symbols(a, used)
				changed = true
			}
		}
		for _, si := range u.structList {
			if used[string(si.sort)] || used["mk$"+si.name] {
				for _, f := range si.fields {
					if !used[string(f.sort)] {
						syms := map[string]bool{}
						symbols(string(f.sort), syms)
						for k := range syms {
							if !used[k] {
								used[k] = true
								changed = true
							}
						}
					}
				}
				if !used[string(si.sort)] {
					used[string(si.sort)] = true
					changed = true
				}
			}
		}
	}
	var b strings.Builder
	b.WriteString("(set-option :produce-models true)\n(set-logic ALL)\n")
	b.WriteString("(declare-sort Str 0)\n(declare-sort Ref 0)\n")
	b.WriteString("(declare-const null Ref)\n")
	b.WriteString("(declare-datatypes ((Slice 0)) (((mk-slice (sbase Ref) (soff Int) (slen Int) (scap Int)))))\n")
	b.WriteString("(define-fun nilslice () Slice (mk-slice null 0 0 0))\n")
	b.WriteString("(declare-fun strlen (Str) Int)\n")
	b.WriteString("(declare-fun refkind (Ref) Int)\n")
	b.WriteString("(declare-fun dyntype (Ref) Int)\n")
	if used["strlen"] {
		b.WriteString("(assert (forall ((s Str)) (! (>= (strlen s) 0) :pattern ((strlen s)))))\n")
	}
	if used["ix"] {
		// element position of s[k] in the backing array; an uninterpreted
		// symbol so that quantifier patterns over s[k] contain no arithmetic
		b.WriteString("(declare-fun ix (Slice Int) Int)\n")
		b.WriteString("(assert (forall ((s Slice) (k Int)) (! (= (ix s k) (+ (soff s) k)) :pattern ((ix s k)))))\n")
	}
	done := map[string]bool{}
	var emit func(si *structInfo)
	emit = func(si *structInfo) {
		if done[si.name] {
			return
		}
		done[si.name] = true
		for _, f := range si.fields {
			u.emitDeps(f.sort, emit)
		}
		if len(si.fields) == 0 {
			fmt.Fprintf(&b, "(declare-datatypes ((%s 0)) (((mk$%s))))\n", si.sort, si.name)
			return
		}
		fmt.Fprintf(&b, "(declare-datatypes ((%s 0)) (((mk$%s", si.sort, si.name)
		for _, f := range si.fields {
			fmt.Fprintf(&b, " (f$%s$%s %s)", si.name, f.name, f.sort)
		}
		b.WriteString("))))\n")
	}
	for _, si := range u.structList {
		if used[string(si.sort)] {
			emit(si)
		}
	}
	var lits []string
	var byteFacts []string
	for i, l := range u.litList {
		n := fmt.Sprintf("lit%d", i)
		if !used[n] && l != "" {
			continue
		}
		lits = append(lits, n)
		fmt.Fprintf(&b, "(declare-const %s Str) ; %q\n", n, l)
		fmt.Fprintf(&b, "(assert (= (strlen %s) %d))\n", n, len(l))
		if used["strbyte"] {
			for k := 0; k < len(l) && k < 16; k++ {
				byteFacts = append(byteFacts, fmt.Sprintf("(assert (= (strbyte %s %d) %d))\n", n, k, l[k]))
			}
		}
	}
	if len(lits) > 1 {
		b.WriteString("(assert (distinct " + strings.Join(lits, " ") + "))\n")
	}
	if n, ok := u.lits[""]; ok && used["strlen"] {
		fmt.Fprintf(&b, "(assert (forall ((s Str)) (! (=> (= (strlen s) 0) (= s %s)) :pattern ((strlen s)))))\n", n)
	}
	for _, n := range u.funOrder {
		if inclFun[n] {
			b.WriteString(u.funs[n])
			b.WriteString("\n")
		}
	}
	if inclFun["spec$secretFree"] {
		// C17: program literals contain no secret
		for _, n := range lits {
			fmt.Fprintf(&b, "(assert (spec$secretFree %s))\n", n)
		}
	}
	if inclFun["strbyte"] {
		for _, f := range byteFacts {
			b.WriteString(f)
		}
	}
	for i, a := range u.axioms {
		if inclAx[i] {
			fmt.Fprintf(&b, "(assert %s)\n", a)
		}
	}
	return b.String()
}

func (u *Universe) emitDeps(s Sort, emit func(*structInfo)) {
	str := string(s)
	// find all S$name tokens
	for {
		i := strings.Index(str, "S$")
		if i < 0 {
			return
		}
		j := i
		for j < len(str) && str[j] != ' ' && str[j] != ')' {
			j++
		}
		if si, ok := u.structs[str[i+2:j]]; ok {
			emit(si)
		}
		str = str[j:]
	}
}

func sortedKeys[V any](m map[string]V) []string {
	keys := make([]string, 0, len(m))
	for k := range m {
		keys = append(keys, k)
	}
	sort.Strings(keys)
	return keys
}

// SMT helpers
func sx(op string, args ...string) string {
	return "(" + op + " " + strings.Join(args, " ") + ")"
}
func and(ts ...string) string {
	var l []string
	for _, t := range ts {
		if t == "true" {
			continue
		}
		if t == "false" {
			return "false"
		}
		l = append(l, t)
	}
	switch len(l) {
	case 0:
		return "true"
	case 1:
		return l[0]
	}
	return sx("and", l...)
}
func or(ts ...string) string {
	var l []string
	for _, t := range ts {
		if t == "false" {
			continue
		}
		if t == "true" {
			return "true"
		}
		l = append(l, t)
	}
	switch len(l) {
	case 0:
		return "false"
	case 1:
		return l[0]
	}
	return sx("or", l...)
}
func not(t string) string {
	switch t {
	case "true":
		return "false"
	case "false":
		return "true"
	}
	if strings.HasPrefix(t, "(not ") && balanced(t[5:len(t)-1]) {
		return t[5 : len(t)-1]
	}
	return sx("not", t)
}
func balanced(s string) bool {
	d := 0
	for _, c := range s {
		switch c {
		case '(':
			d++
		case ')':
			d--
			if d < 0 {
				return false
			}
		}
	}
	return d == 0
}
func implies(a, b string) string {
	if a == "true" {
		return b
	}
	if b == "true" || a == "false" {
		return "true"
	}
	return sx("=>", a, b)
}
func ite(c, a, b string) string {
	if c == "true" {
		return a
	}
	if c == "false" {
		return b
	}
	if a == b {
		return a
	}
	return sx("ite", c, a, b)
}
func eq(a, b string) string {
	if a == b {
		return "true"
	}
	return sx("=", a, b)
}
func sel(a, i string) string       { return sx("select", a, i) }
func store(a, i, v string) string  { return sx("store", a, i, v) }
func intLit(n int64) string {
	if n < 0 {
		return fmt.Sprintf("(- %d)", -n)
	}
	return fmt.Sprintf("%d", n)
}
