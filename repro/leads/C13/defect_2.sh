#!/bin/bash
# Defect 2 (property C13, second half): missing-approve lists a device whose
# latest conclusive observation establishes that it carries exactly the current
# policy's code.  Same root cause as defect 1: status.SetApprove(failed=true)
# overwrites the record of the last successful approve.
#
# History (strictly increasing clock, real do-approve / missing-approve):
#   t1  policy p1, code A.  "do-approve approve router": OK, device carries A
#                                       -> status approve = OK/p1/t1
#   t2  policy p2, code for router unchanged (A).  missing-approve correctly
#       prints nothing.  Somebody runs "do-approve approve router" anyway and
#       the login FAILS (device untouched) -> status approve = FAILED/p2/t2
#   missing-approve now prints "router".
#
# Violation: the failed approve leaves the device as it was, so the latest
# conclusive observation is the successful approve of p1 at t1; p1 is still on
# disk and code(p1) == code(p2).  C13 requires the device to be omitted.
# As long as the device stays unreachable every approve-all run lists and
# retries it although nothing has to be changed on it.
#
# Usage: defect_2.sh        (env SRC = go module root, default /tmp/wt/C13a/go;
#                            env BIN = dir with do-approve + missing-approve,
#                            built from $SRC if unset)
set -e
export GOFLAGS=-mod=mod GOPROXY=off GOSUMDB=off GOTOOLCHAIN=local
SRC=${SRC:-/tmp/wt/C13a/go}
W=$(mktemp -d /tmp/C13a-scratch/d2.XXXXXX)
if [ -z "$BIN" ]; then
    BIN=$W/bin
    mkdir -p $BIN
    (cd $SRC && go build -o $BIN/do-approve ./cmd/do-approve &&
         go build -o $BIN/missing-approve ./cmd/missing-approve)
fi
SIM=$SRC/testdata/simulate-cisco.pl

export HOME=$W
unset LANG
mkdir -p $W/policies $W/status $W/lock $W/history
cat > $W/.netspoc-approve <<EOF
basedir = $W
checkbanner = NetSPoC
systemuser = admin
timeout = 1
EOF
echo "* admin secret" > $W/credentials

CODE_A="ip route 10.20.0.0 255.255.0.0 10.1.2.3"
CODE_B="ip route 10.20.0.0 255.255.0.0 10.1.2.4"

new_policy() { # name code
    mkdir -p $W/policies/$1/code
    echo "$2" > $W/policies/$1/code/router
    cat > $W/policies/$1/code/router.info <<EOF
{"model":"IOS","name_list":["router"],"ip_list":["10.1.13.33"]}
EOF
    ln -sfn $1 $W/policies/current
}

scenario_ok() { # running-config of device
    cat > $W/scenario <<EOF
Enter Password:<!>
banner motd  managed by NetSPoC
router>
# sh ver
Cisco IOS Software, C2900 Software (C2900-UNIVERSALK9-M), Version 15.1(4)M4,
# configure terminal
Enter configuration commands, one per line.  End with CNTL/Z.
# reload in 2

System configuration has been modified. Save? [yes/no]: <!>
Reload reason: Reload Command
Proceed with reload? [confirm]<!>
# reload cancel


***
*** --- SHUTDOWN ABORTED ---
***
# write memory
Building configuration...
  Compressed configuration from 106098 bytes to 30504 bytes[OK]
# sh run
$1
END
EOF
}
scenario_login_fails() {
    printf 'Enter Password:<!>\nEnter Password:<!>\n' > $W/scenario
}
export SIMULATE_ROUTER="$SIM router $W/scenario"

run() { # time, args...
    export TEST_TIME="$1"; shift
    echo "--- [$TEST_TIME] policy=$(readlink $W/policies/current): do-approve $*"
    (cd $W && $BIN/do-approve "$@") 2>&1 | sed 's/^/    /' || true
    echo "    status: $(cat $W/status/router)"
}

new_policy p1 "$CODE_A"
scenario_ok "$CODE_A"                       # device carries A already
run "2024-Sep-29 10:00:00" approve router   # -> OK p1

new_policy p2 "$CODE_A"                     # new policy, same code for router
echo "=== missing-approve before the failed approve: '$(cd $W && TEST_TIME= $BIN/missing-approve)'"
scenario_login_fails                        # device unreachable; it still carries A
run "2024-Sep-29 11:00:00" approve router   # -> FAILED p2

unset TEST_TIME
echo "=== missing-approve (expected by C13: nothing; device carries A == code of p2, p1 still on disk):"
OUT=$(cd $W && $BIN/missing-approve)
echo "    output: '$OUT'"

if [ -n "$OUT" ]; then
    echo "DEFECT CONFIRMED: missing-approve lists 'router' although last successful approve installed identical code"
    RC=1
else
    echo "not reproduced (device was omitted)"
    RC=0
fi
rm -rf $W
exit $RC
