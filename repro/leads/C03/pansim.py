#!/usr/bin/env python3
# Minimal PAN-OS XML-API simulator for auditing Netspoc-Approve.
# usage: pansim.py DEVICES.xml PORTFILE REQLOG
# DEVICES.xml holds <devices>...</devices> (candidate configuration).
# Semantics:  set = merge element into node at xpath (creates path, members
#             are added, never removed);  edit = replace node;  delete = remove
#             node (error if missing or if an object is still referenced);
#             move = reorder (error if dst missing).
# Every received request line is appended to REQLOG, the candidate config is
# written to DEVICES.xml after every change.
import sys, re, copy
import xml.etree.ElementTree as ET
from http.server import BaseHTTPRequestHandler, HTTPServer
from urllib.parse import urlsplit, parse_qs

cfgfile, portfile, reqlog = sys.argv[1:4]
devices = ET.parse(cfgfile).getroot()
assert devices.tag == 'devices'

def log(s):
    with open(reqlog, 'a') as f:
        f.write(s + '\n')

def save():
    ET.ElementTree(devices).write(cfgfile)

def segs(xpath):
    res = []
    for s in xpath.strip('/').split('/'):
        m = re.match(r"^([^\[]+)(?:\[(@name|text\(\))='(.*)'\])?$", s)
        res.append((m.group(1), m.group(2), m.group(3)))
    return res

def find(node, seg):
    tag, kind, val = seg
    for k in node:
        if k.tag != tag: continue
        if kind == '@name' and k.get('name') != val: continue
        if kind == 'text()' and (k.text or '').strip() != val: continue
        return k
    return None

def merge(dst, src):
    if len(src) == 0:
        dst.text = src.text
        return
    for c in src:
        if c.tag == 'member':
            if find(dst, ('member', 'text()', (c.text or '').strip())) is None:
                dst.append(c)
            continue
        k = find(dst, (c.tag, '@name', c.get('name'))) if c.tag == 'entry' \
            else find(dst, (c.tag, None, None))
        if k is None: dst.append(c)
        else: merge(k, c)

def referenced(vsys, kind, name):
    addr = kind in ('address', 'address-group')
    for r in vsys.findall('rulebase/security/rules/entry'):
        for l in (('source', 'destination') if addr else ('service',)):
            for m in r.findall(l + '/member'):
                if (m.text or '').strip() == name:
                    return 'rule ' + r.get('name')
    p, q = ('address-group', 'static') if addr else ('service-group', 'members')
    for g in vsys.findall(p + '/entry'):
        for m in g.findall(q + '/member'):
            if (m.text or '').strip() == name:
                return p + ' ' + g.get('name')
    return None

def walk(sg):
    assert sg[0][0] == 'config' and sg[1][0] == 'devices'
    path = [devices]
    for s in sg[2:]:
        k = find(path[-1], s)
        if k is None: return None
        path.append(k)
    return path

def config_cmd(q):
    action = q['action'][0]
    xpath = q['xpath'][0]
    sg = segs(xpath)
    if action == 'get':
        return 'ok', ET.tostring(devices, encoding='unicode')
    if action == 'set':
        cur = devices
        for s in sg[2:]:
            k = find(cur, s)
            if k is None:
                k = ET.SubElement(cur, s[0])
                if s[1] == '@name': k.set('name', s[2])
            cur = k
        merge(cur, ET.fromstring('<x>' + q['element'][0] + '</x>'))
        return 'ok', ''
    path = walk(sg)
    if path is None:
        return 'err', 'No such node: ' + xpath
    node, parent = path[-1], path[-2]
    if action == 'edit':
        el = ET.fromstring(q['element'][0])
        if el.tag != node.tag:
            return 'err', 'edit: element does not match xpath'
        parent[list(parent).index(node)] = el
        return 'ok', ''
    if action == 'delete':
        tags = [s[0] for s in sg]
        if len(tags) >= 2 and tags[-1] == 'entry' and tags[-2] in (
                'address', 'address-group', 'service', 'service-group'):
            vsys = path[-3]
            r = referenced(vsys, tags[-2], sg[-1][2])
            if r:
                return 'err', '%s %s cannot be deleted because of references from %s' % (tags[-2], sg[-1][2], r)
        parent.remove(node)
        return 'ok', ''
    if action == 'move':
        dst = find(parent, ('entry', '@name', q.get('dst', [''])[0]))
        if dst is None or q.get('where', [''])[0] != 'before':
            return 'err', 'move: bad destination %r' % q.get('dst', [''])[0]
        parent.remove(node)
        parent.insert(list(parent).index(dst), node)
        return 'ok', ''
    return 'err', 'unknown action'

class H(BaseHTTPRequestHandler):
    def log_message(self, fmt, *args):
        log('HTTPD: ' + fmt % args)
    def do_GET(self):
        q = parse_qs(urlsplit(self.path).query, keep_blank_values=True)
        t = q.get('type', [''])[0]
        body = ''
        if t == 'keygen':
            body = "<response status='success'><result><key>KEY</key></result></response>"
        elif t == 'op':
            cmd = q['cmd'][0]
            if 'high-availability' in cmd:
                body = "<response status='success'><result><enabled>no</enabled></result></response>"
            else:
                body = "<response status='success'><result><job><result>OK</result></job></result></response>"
        elif t == 'commit':
            body = '<response status="success" code="19"><result><job>1</job></result></response>'
        elif t == 'config':
            st, msg = config_cmd(q)
            if st == 'ok' and q['action'][0] == 'get':
                body = '<response status="success"><result>' + msg + '</result></response>'
            elif st == 'ok':
                save()
                body = '<response status="success" code="20"></response>'
            else:
                body = '<response status="error"><msg>' + msg.replace('<', '&lt;') + '</msg></response>'
        self.send_response(200)
        if t == 'config' and st != 'ok':
            log('RESULT: err ' + msg)
        self.end_headers()
        self.wfile.write(body.encode())

srv = HTTPServer(('127.0.0.1', 0), H)
with open(portfile, 'w') as f:
    f.write(str(srv.server_address[1]))
srv.serve_forever()
