#!/bin/bash
# Defect 3 (C20): NSX. A group with an empty "ip_addresses" list (token deletion in
# testdata/nsx.t "Replace one group by two different groups"; found for device file and for
# Netspoc file) passes checkConfigValidity (only the number of expressions is checked), but
# sortRules/elementCmp reads gi.Expression[0].IPAddresses[0] (pkg/nsx/diff.go:398) as soon as
# two rules of one policy tie on all earlier sort keys and both reference groups:
# "index out of range [0] with length 0", exit status 2, no diagnostic.
. "$(dirname "$0")/common.inc"
cd "$T"
mk() { cat > $1 <<END
{
 "groups": [
  { "id": "Netspoc-g0", "expression": [ { "id": "id", "resource_type": "IPAddressExpression",
      "ip_addresses": [ $2 ] } ] },
  { "id": "Netspoc-g1", "expression": [ { "id": "id", "resource_type": "IPAddressExpression",
      "ip_addresses": [ "10.1.1.30", "10.1.1.40" ] } ] } ],
 "policies": [
  { "id": "Netspoc-v1", "resource_type": "GatewayPolicy",
    "rules": [
     { "resource_type": "Rule", "id": "r1", "scope": [ "/infra/tier-0s/v1" ],
       "direction": "OUT", "ip_protocol": "IPV4", "sequence_number": 20, "action": "ALLOW",
       "source_groups": [ "/infra/domains/default/groups/Netspoc-g0" ],
       "destination_groups": [ "10.1.2.30" ], "services": [ "ANY" ] },
     { "resource_type": "Rule", "id": "r2", "scope": [ "/infra/tier-0s/v1" ],
       "direction": "OUT", "ip_protocol": "IPV4", "sequence_number": 20, "action": "ALLOW",
       "source_groups": [ "/infra/domains/default/groups/Netspoc-g1" ],
       "destination_groups": [ "10.1.2.30" ], "services": [ "ANY" ] } ] } ],
 "services": []
}
END
}
echo '{"model":"NSX","name_list":["router"],"ip_list":["10.1.13.33"]}' > spoc.info
echo "--- empty ip_addresses in Netspoc file"
mk dev '"10.1.1.10", "10.1.1.20"'; mk spoc ''
run -q dev spoc
echo "--- empty ip_addresses in device file"
mk spoc '"10.1.1.10", "10.1.1.20"'; mk dev ''
run -q dev spoc
