package main

import (
	"bufio"
	"os/exec"
	"encoding/json"
	"flag"
	"fmt"
	"os"
	"path/filepath"
	"regexp"
	"sort"
	"strconv"
	"strings"
	"time"

	"golang.org/x/tools/go/ssa"
)

type knownFinding struct {
	Prop string
	Obl  string
	Desc string
	seen bool
}

func loadKnownFindings(file string) []*knownFinding {
	var out []*knownFinding
	fh, err := os.Open(file)
	if err != nil {
		return nil
	}
	defer fh.Close()
	sc := bufio.NewScanner(fh)
	re := regexp.MustCompile(`^known:\s+property=(\S+)\s+obligation=(.*?)\s+::\s+(.*)$`)
	for sc.Scan() {
		l := strings.TrimSpace(sc.Text())
		if m := re.FindStringSubmatch(l); m != nil {
			out = append(out, &knownFinding{Prop: m[1], Obl: m[2], Desc: m[3]})
		}
	}
	return out
}

type checkResult struct {
	prop       string
	tier       string
	obls       []*Obligation
	funcs      []string
	notes      []string
	extra      map[string]any // additional coverage keys
	bounded    []map[string]any
	violations []violation
	known      []string
	assumptions []string
	trusted    []string
	undecided  []string
}

type violation struct {
	obl    *Obligation
	name   string
	detail string
	replay string
	confirmed bool
}

func hasProp(props []string, p string) bool {
	for _, x := range props {
		if x == p {
			return true
		}
	}
	return false
}

func contractMentions(fc *FuncContract, p string) bool {
	for _, cl := range [][]*Clause{fc.Requires, fc.Ensures, fc.XEnsures, fc.Invs, fc.Asserts, fc.Decr} {
		for _, c := range cl {
			if hasProp(c.Props, p) {
				return true
			}
		}
	}
	return false
}

// taggedCalls: does f directly call (statically or through an interface) a
// function whose contract has a precondition tagged with p?
func (e *Engine) relevantFuncs(p string) map[*ssa.Function]bool {
	direct := map[*ssa.Function]bool{}
	for _, f := range e.allFuncs {
		if e.callsTaggedPre(f, p) {
			direct[f] = true
		}
	}
	// propagate through uncontracted repository callees (they are inlined or havocked)
	rel := map[*ssa.Function]bool{}
	for f := range direct {
		rel[f] = true
	}
	for changed := true; changed; {
		changed = false
		for _, f := range e.allFuncs {
			if rel[f] {
				continue
			}
			for _, b := range f.Blocks {
				for _, ins := range b.Instrs {
					switch x := ins.(type) {
					case ssa.CallInstruction:
						c := x.Common()
						var cands []*ssa.Function
						if c.IsInvoke() {
							cands = e.implementations(c)
						} else if g := c.StaticCallee(); g != nil {
							cands = []*ssa.Function{g}
						}
						for _, g := range cands {
							if rel[g] && e.contractOf(g) == nil && e.inRepo(g) {
								rel[f] = true
								changed = true
							}
						}
					case *ssa.MakeClosure:
						if g := x.Fn.(*ssa.Function); rel[g] && e.contractOf(g) == nil {
							rel[f] = true
							changed = true
						}
					}
				}
			}
		}
	}
	return rel
}

// functionsFor: the functions verified on their own for property p:
// (1) functions whose contract mentions p, (2) relevant functions (see
// relevantFuncs) that no verified function inlines: roots without static
// callers, interface implementations, address-taken functions and functions
// too large to inline.  Uncontracted helpers are covered by inlining; the
// caller checks afterwards that every relevant function that was havocked
// somewhere has been verified on its own (see runContractProperty).
func (e *Engine) functionsFor(p string) []*ssa.Function {
	want := map[*ssa.Function]bool{}
	for _, f := range e.allFuncs {
		if f.Synthetic != "" {
			continue
		}
		fc := e.contractOf(f)
		if fc != nil && contractMentions(fc, p) && !fc.Trusted {
			want[f] = true
		}
	}
	rel := e.relevantFuncs(p)
	hasStaticCaller := map[*ssa.Function]bool{}
	for _, f := range e.allFuncs {
		for _, b := range f.Blocks {
			for _, ins := range b.Instrs {
				switch x := ins.(type) {
				case ssa.CallInstruction:
					if g := x.Common().StaticCallee(); g != nil && !x.Common().IsInvoke() {
						hasStaticCaller[g] = true
					}
				case *ssa.MakeClosure:
					hasStaticCaller[x.Fn.(*ssa.Function)] = true
				}
			}
		}
	}
	for f := range rel {
		if f.Synthetic != "" || want[f] {
			continue
		}
		if fc := e.contractOf(f); fc != nil {
			if !fc.Trusted {
				want[f] = true
			}
			continue
		}
		if f.Parent() != nil {
			continue // closures: covered by inlining into their parent (checked)
		}
		if !hasStaticCaller[f] || e.addrTaken[f] || e.noInline(f) || e.isIfaceImpl(f) {
			want[f] = true
		}
	}
	var out []*ssa.Function
	for f := range want {
		out = append(out, f)
	}
	sort.Slice(out, func(i, j int) bool { return out[i].String() < out[j].String() })
	return out
}

func (e *Engine) isIfaceImpl(f *ssa.Function) bool {
	if f.Signature.Recv() == nil {
		return false
	}
	if e.ifaceImplCache == nil {
		e.ifaceImplCache = map[*ssa.Function]bool{}
		for _, g := range e.allFuncs {
			for _, b := range g.Blocks {
				for _, ins := range b.Instrs {
					if ci, ok := ins.(ssa.CallInstruction); ok && ci.Common().IsInvoke() {
						for _, impl := range e.implementations(ci.Common()) {
							e.ifaceImplCache[impl] = true
							// promoted method wrappers call the real method
							if impl.Synthetic != "" {
								for _, bb := range impl.Blocks {
									for _, in2 := range bb.Instrs {
										if c2, ok := in2.(ssa.CallInstruction); ok {
											if h := c2.Common().StaticCallee(); h != nil {
												e.ifaceImplCache[h] = true
											}
										}
									}
								}
							}
						}
					}
				}
			}
		}
	}
	return e.ifaceImplCache[f]
}

func cmdCheck(args []string) int {
	fs := flag.NewFlagSet("check", flag.ExitOnError)
	prop := fs.String("property", "", "property id")
	tier := fs.String("tier", envOr("VERIF_TIER", "quick"), "quick|thorough")
	keep := fs.String("keep", "", "keep failing scripts in this dir")
	fs.Parse(args)
	if *prop == "" {
		fmt.Fprintln(os.Stderr, "need --property")
		return 2
	}
	t0 := time.Now()
	e, err := loadEngine(repoDir(), verifDir()+"/specs")
	if err != nil {
		fmt.Fprintln(os.Stderr, "ERROR: cannot load repository:", err)
		return 2
	}
	res := &checkResult{prop: *prop, tier: *tier, extra: map[string]any{}}
	timeout := 6
	two := false
	if *tier == "thorough" {
		timeout = 150
		two = true
	}
	runner, ok := propRunners[*prop]
	if !ok {
		runner = runContractProperty
	}
	work := *keep
	if work == "" {
		work, _ = os.MkdirTemp("", "govc")
		defer os.RemoveAll(work)
	} else {
		os.MkdirAll(work, 0755)
	}
	stats := &solveStats{byBackend: map[string]int{}}
	runner(e, res, timeout, two, work, stats)
	// A clause that no longer binds to the source (the local, statement or
	// loop it names is gone) is an obligation that cannot be discharged on
	// this tree: reported as a failed obligation of the properties it is
	// tagged with. Errors outside clauses (declarations, axioms) stay fatal.
	fatal := 0
	byMsg := map[string]*Clause{}
	for _, ce := range e.cerrClauses {
		byMsg[ce.msg] = ce.c
	}
	for _, m := range e.cerrors {
		c := byMsg[m]
		if c == nil {
			fmt.Println("ERROR contract:", m)
			fatal++
			continue
		}
		if len(c.Props) > 0 && !hasProp(c.Props, *prop) {
			res.notes = append(res.notes, "clause of another property does not bind (ignored here): "+m)
			continue
		}
		fmt.Println("UNBOUND contract clause:", m)
		ft := e.newFT(nil)
		res.obls = append(res.obls, &Obligation{Name: "contract/unbound/" + filepath.Base(filepath.Dir(c.File)) + ":" + c.name(), Kind: "contract", Props: []string{*prop},
			Func: filepath.Base(filepath.Dir(c.File)), Pos: fmt.Sprintf("%s:%d", c.File, c.Line), Text: c.Text, Goal: "false", Reach: "true", ft: ft,
			Result: "unbound", SrcLine: m})
	}
	if fatal > 0 {
		fmt.Println("ERROR undecided: contract files do not bind to the current source")
		return 2
	}
	return finish(e, res, stats, t0, work)
}

// runContractProperty: the generic, contract driven check.
func runContractProperty(e *Engine, res *checkResult, timeout int, two bool, work string, stats *solveStats) {
	p := res.prop
	e.curProp = p
	funcs := e.functionsFor(p)
	rel := e.relevantFuncs(p)
	byName := map[string]*ssa.Function{}
	for _, f := range e.allFuncs {
		byName[f.String()] = f
	}
	verified := map[*ssa.Function]bool{}
	var obls []*Obligation
	inlinedAll := map[string]bool{}
	havockedAll := map[string]bool{}
	for round := 0; len(funcs) > 0 && round < 10; round++ {
	 var next []*ssa.Function
	 for _, f := range funcs {
	  if verified[f] {
		continue
	  }
	  verified[f] = true
	  for _, ft := range e.verifyFuncAll(f, e.contractOf(f), false) {
		for k := range ft.havocked {
			if !havockedAll[k] {
				havockedAll[k] = true
				if g := byName[k]; g != nil && rel[g] && !verified[g] && e.contractOf(g) == nil && g.Parent() == nil {
					next = append(next, g)
				}
			}
		}
		for k := range ft.inlined {
			inlinedAll[k] = true
		}
		res.funcs = appendUniq(res.funcs, shortFuncName(f))
		for _, n := range ft.notes {
			res.notes = append(res.notes, shortFuncName(f)+": "+n)
		}
		for k := range ft.assumed {
			if !strings.HasPrefix(k, "heapinit:") {
				if strings.HasPrefix(k, "HYPOTHESIS") || strings.HasPrefix(k, "ASSUME") {
					res.trusted = appendUniq(res.trusted, k)
				} else {
					res.trusted = appendUniq(res.trusted, "callee contract assumed at call sites: "+k)
				}
			}
		}
		for k := range ft.havocked {
			res.trusted = appendUniq(res.trusted, "callee without contract, effects over-approximated by inferred write set: "+strings.ReplaceAll(k, repoPkgPrefix, ""))
		}
		fc := e.contractOf(f)
		for _, o := range ft.obls {
			if hasProp(o.Props, p) || (len(o.Props) == 0 && fc != nil && contractMentions(fc, p)) || (o.Cover && fc != nil && contractMentions(fc, p)) {
				if hasProp(o.Props, "slow") && res.tier != "thorough" {
					res.extra["slow_obligations_checked_in_thorough_tier_only"] = appendUniq(strs(res.extra["slow_obligations_checked_in_thorough_tier_only"]), o.Name)
					continue
				}
				obls = append(obls, o)
			}
		}
	  }
	 }
	 funcs = next
	}
	obls = append(obls, e.lemmaObligations(p)...)
	obls = append(obls, e.scanObligations(p)...)
	obls = append(obls, e.globalConstObligations(p)...)
	obls = append(obls, e.emitOnSuccessObligations(p)...)
	obls = append(obls, e.constFormatObligations(p)...)
	obls = append(obls, e.fieldsComparedObligations(p)...)
	obls = append(obls, e.freshInLoopObligations(p)...)
	obls = append(obls, e.forbidGlobalObligations(p)...)
	obls = append(obls, e.storesOnlyObligations(p)...)
	// anonymous functions that call a function with a P-tagged precondition
	// must have been reached by inlining (they are not verified on their own)
	for _, f := range e.allFuncs {
		if f.Parent() == nil || e.contractOf(f) != nil || inlinedAll[f.String()] {
			continue
		}
		if e.callsTaggedPre(f, p) {
			ft := e.newFT(nil)
			obls = append(obls, &Obligation{Name: "scan/closure-covered/" + shortFuncName(f), Kind: "scan", Props: []string{p}, Func: shortFuncName(f),
				Pos: posString(e.fset, f.Pos()), Text: "closure with relevant calls is verified through inlining", Goal: "false", Reach: "true", ft: ft,
				SrcLine: "closure is never inlined into a verified function: give it a contract"})
		}
	}
	discharge(obls, "", timeout, two, work, stats)
	res.obls = append(res.obls, obls...)
}

func appendUniq(l []string, s string) []string {
	for _, x := range l {
		if x == s {
			return l
		}
	}
	return append(l, s)
}

// lemma obligations: pure SMT lemmas from contract files
func (e *Engine) lemmaObligations(p string) []*Obligation {
	var out []*Obligation
	for _, l := range e.cs.Lemmas {
		if !hasProp(l.Props, p) {
			continue
		}
		ft := e.newFT(nil)
		env := &SpecEnv{ft: ft, vars: map[string]SVal{}, cur: &State{heaps: map[string]string{}}}
		env.old = env.cur
		for path, tp := range e.tpkgs {
			rel := strings.TrimPrefix(path, repoPkgPrefix)
			if strings.Contains(l.File, "/"+rel+"/zz_contracts_verif.go") {
				env.pkg = tp
			}
		}
		goal, err := env.evalBool(l.E)
		if err != nil {
			e.cerrors = append(e.cerrors, fmt.Sprintf("lemma %s: %v", l.Name, err))
			continue
		}
		o := &Obligation{Name: "lemma/" + l.Name, Kind: "lemma", Props: l.Props, Func: "lemma " + l.Name, Pos: filepath.Base(l.File),
			Text: l.Text, Goal: goal, Reach: "true", Prefix: ft.decls.Len(), ft: ft}
		out = append(out, o)
	}
	return out
}

func finish(e *Engine, res *checkResult, stats *solveStats, t0 time.Time, work string) int {
	p := res.prop
	vdir := verifDir()
	known := loadKnownFindings(filepath.Join(vdir, "known-findings.txt"))
	var failing []*Obligation
	discharged := 0
	counted := 0
	nKnown := 0
	for _, o := range res.obls {
		if o.Cover && o.Result != "sat" && o.Result != "unsat" {
			continue // inconclusive vacuity check: neither counted nor a failure
		}
		if o.ok() {
			discharged++
			counted++
			continue
		}
		isKnown := false
		for _, k := range known {
			if k.Prop == p && k.Obl == o.Name {
				isKnown = true
				if !k.seen {
					fmt.Printf("KNOWN-FINDING: property=%s %s (obligation %s)\n", p, k.Desc, o.Name)
					res.known = append(res.known, k.Obl+" :: "+k.Desc)
				}
				k.seen = true
				nKnown++
			}
		}
		if isKnown {
			continue
		}
		counted++
		failing = append(failing, o)
	}
	for _, v := range res.violations {
		_ = v
	}
	// violations from failing obligations
	os.MkdirAll(filepath.Join(vdir, "replays", p), 0755)
	for _, o := range failing {
		v := violation{obl: o, name: o.Name}
		v.replay = writeReplay(e, p, o, work)
		res.violations = append(res.violations, v)
	}
	exit := 0
	for _, v := range res.violations {
		suffix := ""
		if !v.confirmed {
			suffix = " no-failing-input-found"
		}
		what := v.name
		if v.obl != nil {
			what = fmt.Sprintf("%s [%s at %s: %s]", v.obl.Name, v.obl.Result, v.obl.Pos, v.obl.SrcLine)
		}
		fmt.Printf("FAILED obligation %s\n", what)
		fmt.Printf("VIOLATION property=%s replay=%s%s\n", p, v.replay, suffix)
		exit = 1
	}
	// evidence
	wall := time.Since(t0).Seconds()
	seed, _ := strconv.Atoi(os.Getenv("VERIF_SEED"))
	var samples []any
	for i, o := range res.obls {
		if i >= 4 {
			break
		}
		samples = append(samples, map[string]any{"obligation": o.Name, "kind": o.Kind, "at": o.Pos, "goal_smt": truncate(o.Goal, 600), "result": o.Result, "solver": o.Solver})
	}
	if len(samples) == 0 {
		samples = append(samples, "no obligations generated")
	}
	kinds := map[string]int{}
	coverSat, coverInconclusive := 0, 0
	for _, o := range res.obls {
		kinds[o.Kind]++
		if o.Cover {
			if o.Result == "sat" {
				coverSat++
			} else if o.Result != "unsat" {
				coverInconclusive++
			}
		}
	}
	sort.Strings(res.funcs)
	cov := map[string]any{
		"obligations":              counted,
		"discharged":               discharged,
		"checker_cmd":              fmt.Sprintf("/verif/bin/govc check --property %s --tier %s  (VCs from go/ssa of /repo/go working tree; z3-new 5.1.0, z3 4.8.12, cvc5 1.0.3 portfolio)", p, res.tier),
		"trusted_base":             append(baseTrusted(), res.trusted...),
		"samples":                  samples,
		"functions_under_contract": res.funcs,
		"obligations_by_kind":      kinds,
		"vacuity_covers":           map[string]int{"satisfiable": coverSat, "inconclusive_not_refuted": coverInconclusive},
		"by_backend":               stats.byBackend,
		"solver_s":                 round2(stats.seconds),
		"solver_queries":           stats.queries,
		"known_findings":           res.known,
		"known_finding_obligations_excluded": nKnown,
		"unverified_notes":         res.notes,
		"undecided":                res.undecided,
		"external_models_used":     e.usedExternals,
	}
	for k, v := range res.extra {
		cov[k] = v
	}
	if len(res.bounded) > 0 {
		cov["bounded"] = res.bounded
	}
	level := "proof"
	if lv, ok := res.extra["level"].(string); ok {
		level = lv
		delete(cov, "level")
	} else if cat, text := manifestLevel(vdir, p); cat != "" && cat != "proof" {
		// the claimed level is declared in MANIFEST.json (e.g. "other" for a
		// proof that covers only part of the property)
		level = cat
		if _, ok := cov["explanation"]; !ok {
			cov["explanation"] = "contract proofs of the functions listed under functions_under_contract cover part of the property: " + text
		}
	}
	if level == "other" {
		if _, ok := cov["explanation"]; !ok {
			cov["explanation"] = "see MANIFEST level_note"
		}
	}
	ev := map[string]any{
		"property_id": p,
		"tier":        res.tier,
		"seed":        seed,
		"level":       level,
		"coverage":    cov,
		"assumptions": append(baseAssumptions(), res.assumptions...),
		"wall_s":      round2(wall),
		"violations":  len(res.violations),
	}
	os.MkdirAll(filepath.Join(vdir, "evidence"), 0755)
	data, _ := json.MarshalIndent(ev, "", " ")
	os.WriteFile(filepath.Join(vdir, "evidence", p+".json"), data, 0644)
	fmt.Printf("property %s: %d obligations, %d discharged, %d known findings, %d violations, %.1fs\n", p, counted, discharged, nKnown, len(res.violations), wall)
	if counted == 0 && len(res.bounded) == 0 {
		fmt.Println("ERROR undecided: no obligations were generated for", p)
		return 2
	}
	return exit
}

func round2(f float64) float64 { return float64(int(f*100)) / 100 }

func truncate(s string, n int) string {
	if len(s) > n {
		return s[:n] + "..."
	}
	return s
}

func baseTrusted() []string {
	return []string{
		"go/ssa translation of the working tree (golang.org/x/tools v0.29.0)",
		"the VC generator govc itself (mitigated by the must-fail corpus /verif/seeded, run by /verif/tools/selftest.sh)",
		"SMT solvers z3 5.1.0 / z3 4.8.12 / cvc5 1.0.3 (thorough tier: two solvers must agree)",
		"library and environment specifications in /verif/specs/*.vc",
	}
}

func baseAssumptions() []string {
	return []string{
		"integers are mathematical (no overflow) within the declared range of their Go type",
		"strings are an uninterpreted sort with length, concatenation and sub-string axioms",
		"append/slices.Insert return a fresh backing array (value semantics)",
		"external (library) calls do not panic and write only through their slice/pointer/map arguments unless a spec in /verif/specs says otherwise",
		"a typed nil pointer stored in an interface is treated as the nil interface",
		"no goroutines: the repository's non-test code is sequential",
	}
}

func writeReplay(e *Engine, p string, o *Obligation, work string) string {
	vdir := verifDir()
	name := sanitize(o.Name)
	if len(name) > 150 {
		name = name[:150]
	}
	file := filepath.Join(vdir, "replays", p, name+".txt")
	var b strings.Builder
	fmt.Fprintf(&b, "property: %s\nobligation: %s\nkind: %s\nfunction: %s\nposition: %s\nsource: %s\n", p, o.Name, o.Kind, o.Func, o.Pos, o.SrcLine)
	fmt.Fprintf(&b, "clause: %s\nsolver result: %s (%s, %.2fs)\n", o.Text, o.Result, o.Solver, o.Seconds)
	// candidate model without quantified axioms
	model := o.Model
	if model == "" && o.ft != nil {
		model = relaxedModel(o, work)
	}
	if model != "" {
		fmt.Fprintf(&b, "\n--- solver model (inputs and ghost state at function entry; names carry !n suffixes) ---\n%s\n", filterModel(model))
	} else {
		b.WriteString("\nno model: solver answered " + o.Result + "\n")
	}
	fmt.Fprintf(&b, "\n--- goal ---\n(reach) %s\n(goal)  %s\n", truncate(o.Reach, 2000), truncate(o.Goal, 4000))
	os.WriteFile(file, []byte(b.String()), 0644)
	return file
}

// relaxedModel: drop quantified assertions to obtain a candidate model.
func relaxedModel(o *Obligation, work string) string {
	script := o.script("")
	var b strings.Builder
	for _, l := range strings.Split(script, "\n") {
		if strings.HasPrefix(l, "(assert") && strings.Contains(l, "(forall ") {
			continue
		}
		b.WriteString(l)
		b.WriteString("\n")
	}
	b.WriteString("(get-model)\n")
	f := filepath.Join(work, "relaxed.smt2")
	os.WriteFile(f, []byte(b.String()), 0644)
	res, out, _ := runSolver(solvers[0], f, 5, true)
	if res != "sat" {
		return ""
	}
	return "(candidate model: quantified axioms dropped)\n" + out
}

// filterModel keeps the definitions of input constants only.
func filterModel(m string) string {
	if len(m) > 30000 {
		m = m[:30000] + "\n...truncated"
	}
	return m
}

func cmdReplay(args []string) int {
	if len(args) < 1 {
		fmt.Fprintln(os.Stderr, "usage: govc replay <file>")
		return 2
	}
	data, err := os.ReadFile(args[0])
	if err != nil {
		fmt.Fprintln(os.Stderr, err)
		return 2
	}
	os.Stdout.Write(data)
	// re-run an attached Go replay test if present
	if i := strings.Index(string(data), "--- go replay test ---"); i >= 0 {
		return runGoReplay(string(data)[i:])
	}
	return 0
}

var propRunners = map[string]func(*Engine, *checkResult, int, bool, string, *solveStats){}

func (e *Engine) callsTaggedPre(f *ssa.Function, p string) bool {
	for _, b := range f.Blocks {
		for _, ins := range b.Instrs {
			ci, ok := ins.(ssa.CallInstruction)
			if !ok {
				// taking a contracted function as a value (method value, closure,
				// plain function): it may be called dynamically from here
				var fcs []*FuncContract
				for _, op := range ins.Operands(nil) {
					if op == nil || *op == nil {
						continue
					}
					if g, ok := (*op).(*ssa.Function); ok {
						if t := boundTarget(g); t != nil {
							g = t
						}
						if fc := e.contractOf(g); fc != nil {
							fcs = append(fcs, fc)
						}
					}
				}
				for _, fc := range fcs {
					for _, r := range fc.Requires {
						if hasProp(r.Props, p) {
							return true
						}
					}
				}
				continue
			}
			c := ci.Common()
			var fcs []*FuncContract
			if c.IsInvoke() {
				if fc := e.ifaceContract(c); fc != nil {
					fcs = append(fcs, fc)
				}
				for _, g := range e.implementations(c) {
					if fc := e.contractOf(g); fc != nil {
						fcs = append(fcs, fc)
					}
				}
			} else if g := c.StaticCallee(); g != nil {
				if fc := e.contractOf(g); fc != nil {
					fcs = append(fcs, fc)
				}
			}
			for _, fc := range fcs {
				for _, r := range fc.Requires {
					if hasProp(r.Props, p) {
						return true
					}
				}
			}
		}
	}
	return false
}

// ---------------------------------------------------------------------------
// C20: zero-annotation safety sweep

func init() {
	propRunners["C20"] = runSafetySweep
}

func sweepScope(e *Engine, f *ssa.Function) bool {
	if f.Synthetic != "" {
		return false
	}
	return true
}

type sweepBaseline struct {
	Discharged []string `json:"discharged"`
	Undecided  []string `json:"undecided"`
}

func loadSweepBaseline(p string) (*sweepBaseline, map[string]bool, map[string]bool) {
	b := &sweepBaseline{}
	data, err := os.ReadFile(filepath.Join(verifDir(), "baseline", p+".json"))
	if err != nil {
		return nil, nil, nil
	}
	json.Unmarshal(data, b)
	d, u := map[string]bool{}, map[string]bool{}
	for _, n := range b.Discharged {
		d[n] = true
	}
	for _, n := range b.Undecided {
		u[n] = true
	}
	return b, d, u
}

// runSafetySweep: every index, slice, nil, map-write, type-assertion,
// division and explicit-panic site of every repository function becomes an
// obligation (no annotations).  /verif/baseline/C20.json records which of them
// are discharged on the unchanged tree (must stay discharged) and which are
// undecided there (not part of the claim, retried in the thorough tier).
func runSafetySweep(e *Engine, res *checkResult, timeout int, two bool, work string, stats *solveStats) {
	p := res.prop
	// contract clauses tagged with the property (loop variants of the
	// termination kernel, preconditions) are proved like for every other property
	runContractProperty(e, res, timeout, two, work, stats)
	e.curProp = p
	writeBaseline := os.Getenv("GOVC_WRITE_BASELINE") != ""
	_, based, baseu := loadSweepBaseline(p)
	if based == nil && !writeBaseline {
		res.notes = append(res.notes, "no baseline file: all obligations are attempted")
	}
	var obls []*Obligation
	nf := 0
	for _, f := range e.allFuncs {
		if !sweepScope(e, f) {
			continue
		}
		fc := e.contractOf(f)
		if fc != nil && fc.Trusted && (len(fc.TrustedFor) == 0 || hasProp(fc.TrustedFor, "C20")) {
			continue
		}
		var fts []*FT
		func() {
			defer func() {
				if r := recover(); r != nil {
					res.notes = append(res.notes, fmt.Sprintf("%s: generator failed: %v", shortFuncName(f), r))
					// a function whose sites silently disappear would look like a pass
					e.cerrors = append(e.cerrors, fmt.Sprintf("VC generator failed on %s: %v", shortFuncName(f), r))
				}
			}()
			fts = e.verifyFuncAll(f, fc, true)
		}()
		nf++
		for i, ft := range fts {
			if i > 0 {
				break // one variant is enough for the safety of the function's own code
			}
			for _, n := range ft.notes {
				res.notes = appendUniq(res.notes, shortFuncName(f)+": "+n)
			}
			for _, o := range ft.obls {
				if strings.HasPrefix(o.Kind, "safe/") || (o.Kind == "pre" && hasProp(o.Props, p)) {
					o.Name = strings.TrimPrefix(o.Name, "["+ft.variant+"]")
					obls = append(obls, o)
				}
			}
		}
		res.funcs = append(res.funcs, shortFuncName(f))
	}
	st := 2
	if res.tier == "thorough" || writeBaseline {
		st = 10
	}
	var todo []*Obligation
	skipped := 0
	for _, o := range obls {
		if !writeBaseline && res.tier != "thorough" && baseu[o.Name] {
			o.Result = "skipped"
			skipped++
			continue
		}
		todo = append(todo, o)
	}
	sweepMode = true
	discharge(todo, "", st, false, work, stats)
	sweepMode = false
	if writeBaseline {
		b := &sweepBaseline{}
		for _, o := range obls {
			if o.Result == "unsat" {
				b.Discharged = append(b.Discharged, o.Name)
			} else {
				b.Undecided = append(b.Undecided, o.Name)
			}
		}
		sort.Strings(b.Discharged)
		sort.Strings(b.Undecided)
		os.MkdirAll(filepath.Join(verifDir(), "baseline"), 0755)
		data, _ := json.MarshalIndent(b, "", " ")
		os.WriteFile(filepath.Join(verifDir(), "baseline", p+".json"), data, 0644)
		based, baseu = map[string]bool{}, map[string]bool{}
		for _, n := range b.Discharged {
			based[n] = true
		}
		for _, n := range b.Undecided {
			baseu[n] = true
		}
	}
	// classify
	var claimed []*Obligation
	newUndecided, newlyDischarged := []string{}, []string{}
	seen := map[string]bool{}
	for _, o := range obls {
		seen[o.Name] = true
		switch {
		case o.Result == "skipped":
		case o.Result == "unsat":
			claimed = append(claimed, o)
			if baseu[o.Name] {
				newlyDischarged = append(newlyDischarged, o.Name)
			}
		case based[o.Name]:
			// was proved on the unchanged tree, fails now
			claimed = append(claimed, o)
		default:
			if !baseu[o.Name] {
				newUndecided = append(newUndecided, o.Name+" ["+o.Result+" at "+o.Pos+"]")
			}
		}
	}
	missing := 0
	for n := range based {
		if !seen[n] {
			missing++
		}
	}
	res.obls = append(res.obls, claimed...)
	res.undecided = newUndecided
	runBoundedC20(e, res, work)
	res.extra["functions_swept"] = nf
	res.extra["sites_total"] = len(obls)
	res.extra["sites_undecided_in_baseline_not_claimed"] = len(baseu)
	res.extra["sites_undecided_skipped_this_run"] = skipped
	res.extra["baseline_obligations_no_longer_generated"] = missing
	res.extra["undecided_now_discharged"] = newlyDischarged
	res.extra["level"] = "other"
	res.extra["explanation"] = "two parts: (1) deductive - every index, slice, nil-dereference, map-write, type-assertion, division and explicit-panic site of every repository function is a zero-annotation obligation; the sites discharged on the unchanged tree (baseline/C20.json) are proved safe for all inputs and must stay discharged, the remaining sites are undecided and not part of the claim; (2) bounded - the property's own finite input family is executed on the real parsers/planners with panics recovered (quick: the first 2 lines of every text, thorough: the first 25); a panic or an execution that does not return within 20 s is a confirmed failing input. Termination ('never hang') is proved only for the loops that carry a decreases clause (termination kernel, see DESIGN.md); elsewhere it is covered by the bounded runs only."
}

// runBoundedC20: bounded stand-in and replay engine for C20 - the real parsers
// and planners are executed on the mutation family described in the property's
// own quantifier text (see /verif/fuzz/main.go); a runtime panic is a confirmed
// failing input.
func runBoundedC20(e *Engine, res *checkResult, work string) {
	vdir := verifDir()
	bin, env, ok := buildBoundedRunner(res, work)
	if !ok {
		return
	}
	maxLines := "2"
	if res.tier == "thorough" {
		maxLines = "25"
	}
	outFile := filepath.Join(work, "fuzz.json")
	t0 := time.Now()
	run := exec.Command(bin, "-maxlines", maxLines, "-testdata", filepath.Join(repoDir(), "testdata"), "-corpus", filepath.Join(vdir, "repro", "C20"), "-out", outFile)
	run.Env = env
	run.CombinedOutput()
	data, err := os.ReadFile(outFile)
	if err != nil {
		res.notes = append(res.notes, "bounded runner produced no result")
		return
	}
	var fr struct {
		Cases    int `json:"cases"`
		Runs     int `json:"runs"`
		Findings []struct {
			Site, Panic, Model, Device, Netspoc, Raw string
			Count                                    int
		} `json:"findings"`
	}
	json.Unmarshal(data, &fr)
	known := loadKnownFindings(filepath.Join(vdir, "known-findings.txt"))
	sites := []string{}
	for _, f := range fr.Findings {
		// identify the site by file + source text (robust against line shifts)
		file, line := f.Site, 0
		if i := strings.LastIndex(f.Site, ":"); i > 0 {
			file = f.Site[:i]
			line, _ = strconv.Atoi(f.Site[i+1:])
		}
		src := ""
		if l := e.lines(filepath.Join(repoDir(), file)); line-1 < len(l) && line > 0 {
			src = strings.TrimSpace(l[line-1])
		}
		id := "panic@" + file + "::" + src
		if f.Site == "hang" {
			id = "hang@" + f.Model
		}
		sites = append(sites, id)
		isKnown := false
		for _, k := range known {
			if k.Prop == res.prop && k.Obl == id {
				isKnown = true
				if !k.seen {
					fmt.Printf("KNOWN-FINDING: property=%s %s (%s)\n", res.prop, k.Desc, id)
					res.known = append(res.known, k.Obl+" :: "+k.Desc)
				}
				k.seen = true
			}
		}
		if isKnown {
			continue
		}
		// confirmed violation with failing input
		os.MkdirAll(filepath.Join(vdir, "replays", res.prop), 0755)
		rp := filepath.Join(vdir, "replays", res.prop, sanitize(id)+".json")
		rec := map[string]string{"site": f.Site, "source_line": src, "panic": f.Panic, "model": f.Model, "device": f.Device, "netspoc": f.Netspoc, "raw": f.Raw,
			"how_to_replay": "/verif/repro/C20_replay.sh " + rp}
		jd, _ := json.MarshalIndent(rec, "", " ")
		os.WriteFile(rp, jd, 0644)
		if f.Site == "hang" {
			res.violations = append(res.violations, violation{name: fmt.Sprintf("an execution of the %s parser/planner did not terminate (%s); the rest of the bounded family was not explored in this run", f.Model, f.Panic), replay: rp, confirmed: true})
			continue
		}
		res.violations = append(res.violations, violation{name: fmt.Sprintf("runtime panic at %s (%s): %s", f.Site, src, f.Panic), replay: rp, confirmed: true})
	}
	res.bounded = append(res.bounded, map[string]any{
		"what":        "real ParseConfig/MergeSpoc/GetChanges of all five device types executed with panics recovered",
		"bound":       "every DEVICE/NETSPOC/RAW text of go/testdata/*.t; per text the first " + maxLines + " lines mutated: word-prefix truncations, single-token deletion/duplication, adjacent swaps, double blanks, indentation change, line deletion/duplication; JSON/XML structural mutations (null, [], [null], member deletion, element deletion/duplication); empty and garbage files; both argument positions; netspoc text reused as raw file; plus every stored reproducer /verif/repro/C20/*.json (regression corpus of repaired defects and known findings)",
		"cases":       fr.Cases,
		"executions":  fr.Runs,
		"panic_sites": sites,
		"seconds":     round2(time.Since(t0).Seconds()),
		"label":       "bounded (not counted as proved)",
	})
}

// buildBoundedRunner compiles /verif/fuzz against the current working tree of the repository.
func buildBoundedRunner(res *checkResult, work string) (string, []string, bool) {
	vdir := verifDir()
	bin := filepath.Join(work, "fuzzrun")
	env := append(os.Environ(), "GOFLAGS=-mod=mod", "GOPROXY=off", "GOSUMDB=off", "GOTOOLCHAIN=local")
	if _, err := os.Stat(bin); err == nil {
		return bin, env, true
	}
	fdir := filepath.Join(work, "fuzzsrc")
	os.MkdirAll(fdir, 0755)
	data, _ := os.ReadFile(filepath.Join(vdir, "fuzz", "main.go"))
	os.WriteFile(filepath.Join(fdir, "main.go"), []byte(strings.ReplaceAll(string(data), "/repo/go/", repoDir()+"/")), 0644)
	gomod, _ := os.ReadFile(filepath.Join(vdir, "fuzz", "go.mod"))
	os.WriteFile(filepath.Join(fdir, "go.mod"), []byte(strings.ReplaceAll(string(gomod), "/repo/go", repoDir())), 0644)
	sum, _ := os.ReadFile(filepath.Join(repoDir(), "go.sum"))
	os.WriteFile(filepath.Join(fdir, "go.sum"), sum, 0644)
	cmd := exec.Command("go", "build", "-o", bin, ".")
	cmd.Dir = fdir
	cmd.Env = env
	if out, err := cmd.CombinedOutput(); err != nil {
		res.notes = append(res.notes, "bounded runner did not build: "+string(out))
		return "", nil, false
	}
	return bin, env, true
}

func strs(v any) []string {
	if l, ok := v.([]string); ok {
		return l
	}
	return nil
}

// manifestLevel: level_claimed.category and text of property p in MANIFEST.json.
func manifestLevel(vdir, p string) (string, string) {
	data, err := os.ReadFile(filepath.Join(vdir, "MANIFEST.json"))
	if err != nil {
		return "", ""
	}
	var m struct {
		Checks []struct {
			PropertyID   string `json:"property_id"`
			LevelClaimed struct {
				Category string `json:"category"`
				Text     string `json:"text"`
			} `json:"level_claimed"`
			LevelNote string `json:"level_note"`
		} `json:"checks"`
	}
	if json.Unmarshal(data, &m) != nil {
		return "", ""
	}
	for _, c := range m.Checks {
		if c.PropertyID == p {
			return c.LevelClaimed.Category, c.LevelClaimed.Text + " NOT COVERED / ASSUMED: " + c.LevelNote
		}
	}
	return "", ""
}
