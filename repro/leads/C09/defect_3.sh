#!/bin/bash
# defect_3.sh - Property C09 violation (IOS/ASA: device rejects the
# configuration retrieval command) - confirmed, but only reachable for
# Netspoc code without interface bindings (e.g. IOS "managed = routing_only").
#
# ios.(*State).LoadDevice reads the configuration with
#     out := s.Conn.GetCmdOutput("sh run")          (ASA: "write term")
# and feeds whatever text came back into ParseConfig. For a device
# configuration ParseConfig silently ignores every top level line it does not
# know, so an error text such as "Command authorization failed." or
# "% Invalid input detected at '^' marker." is parsed as a valid, EMPTY
# configuration. Nothing checks that the answer looks like a configuration.
#
# If the Netspoc code binds ACLs to interfaces, the later check
# "Interface 'X' from Netspoc not known on device" stops the run by accident
# (FAILED is recorded, with a misleading message). For code consisting only of
# routes (routing_only devices) nothing stops it:
#
# Violation of C09: "If the device rejects a command ... at any step of ...
# configuration retrieval ... then no further change command is sent ..., the
# configuration is not saved, the program exits non-zero, do-approve records
# FAILED ... END: FAILED".
# Observed: the rejection is not noticed; approve computes its changes against
# an empty device, sends them all (every route is added again, nothing that
# is really on the device is removed), runs "write memory", exits 0 and
# records approve "OK" / "END: OK". No ERROR>>> line anywhere.
set -u
BIN=${BIN:-}
SIMPL=${SIMPL:-/tmp/wt/C09a/go/testdata/simulate-cisco.pl}
if [ -z "$BIN" ]; then
    BIN=/tmp/C09a-scratch/do-approve
    if [ ! -x "$BIN" ]; then
        ( cd /tmp/wt/C09a/go && export GOFLAGS=-mod=mod GOPROXY=off GOSUMDB=off GOTOOLCHAIN=local &&
          go build -o "$BIN" ./cmd/do-approve ) || exit 1
    fi
fi
T=$(mktemp -d)
trap 'rm -rf "$T"' EXIT
cd "$T"
mkdir -p policies/p1/code lock status history
ln -s p1 policies/current
cat > policies/p1/code/router.info <<'X'
{"model":"IOS","name_list":["router"],"ip_list":["10.1.13.33"]}
X
cat > policies/p1/code/router <<'X'
ip route 10.20.0.0 255.255.0.0 10.1.2.3
ip route 10.30.0.0 255.255.0.0 10.1.2.3
X
echo '* admin secret' > credentials
cat > .netspoc-approve <<X
basedir = $T
checkbanner = NetSPoC
systemuser = admin
timeout = 2
X
cat > scenario <<'X'
Enter Password:<!>
banner motd  managed by NetSPoC
router>
# sh ver
Cisco IOS Software, C2900 Software (C2900-UNIVERSALK9-M), Version 15.1(4)M4,
# sh run
Command authorization failed.

# configure terminal
Enter configuration commands, one per line.  End with CNTL/Z.
# reload in 2

System configuration has been modified. Save? [yes/no]: <!>
Reload reason: Reload Command
Proceed with reload? [confirm]<!>
# reload cancel


***
*** --- SHUTDOWN ABORTED ---
***
# write memory
Building configuration...
  Compressed configuration from 106098 bytes to 30504 bytes[OK]
X
export SIMULATE_ROUTER="$SIMPL router $T/scenario" HOME=$T
echo "=== do-approve approve router"
"$BIN" approve router
echo "exit code: $?   (expected: non-zero)"
echo "=== policies/p1/log/router.drc"
cat policies/p1/log/router.drc
echo "=== policies/p1/log/router.config (what the device answered to 'sh run')"
cat policies/p1/log/router.config; echo
echo "=== policies/p1/log/router.change (change commands sent although retrieval was rejected)"
cat policies/p1/log/router.change; echo
echo "=== status/router (expected approve result FAILED)"
cat status/router; echo
echo "=== history/router (expected END: FAILED)"
cat history/router
