#!/bin/bash
# C02 defect 2: a remark at the border of two blocks makes diffIOSACLs skip
# a necessary move; the device ends with a different rule order ACROSS blocks.
#
# Device:   permit host .1 | remark | deny host .2 | permit any
# Netspoc:  deny 10.0.0.0/24 | remark | permit host .1 | deny host .2 | permit any
# The remark carries the block ID of 'permit host .1'.  The new deny line is
# inserted between 'permit host .1' and the remark; insideBlock() sees a block
# border there and does not split the block.  The move of 'permit host .1'
# behind the remark is then dropped as "same block" (idx2Block[before-1] is the
# remark).  Emitted: only '10001 deny ip 10.0.0.0 0.0.0.255 any'.
# Resulting device: permit host .1, deny /24, remark, deny host .2, permit any
#   -> packets from 10.0.0.1 are PERMITTED, target DENIES them.
# Violates: "managed interfaces filter exactly as the target specifies".
# (The second compare of the resulting device emits the missing move, so the
#  second compare is not empty either.)
. "$(dirname "$0")/common.sh"
cat > dev <<'END'
ip access-list extended test
 permit ip host 10.0.0.1 any
 remark Rules for B
 deny ip host 10.0.0.2 any
 permit ip any any

interface Ethernet1
 ip access-group test in
END
cat > spoc <<'END'
ip access-list extended test
 deny ip 10.0.0.0 0.0.0.255 any
 remark Rules for B
 permit ip host 10.0.0.1 any
 deny ip host 10.0.0.2 any
 permit ip any any

interface Ethernet1
 ip access-group test in
END
echo "$INFO" > spoc.info
echo "--- drc dev spoc   (BUG: 'permit ip host 10.0.0.1 any' is not moved behind the new deny line)"
"$DRC" dev spoc
# Device after executing the emitted commands by hand:
cat > dev2 <<'END'
ip access-list extended test
 permit ip host 10.0.0.1 any
 deny ip 10.0.0.0 0.0.0.255 any
 remark Rules for B
 deny ip host 10.0.0.2 any
 permit ip any any

interface Ethernet1
 ip access-group test in
END
echo "--- second compare of resulting device (BUG: not empty)"
"$DRC" dev2 spoc
# Variant with leading remark (deleted remark carries the ID of the first block):
# Device:  remark | permit .4 | permit .3 | permit .1
# Netspoc: permit .1 | deny 10.0.0.0/24 | permit .4 | permit .3
# Emitted: '10002 deny ...' and 'no 10000' only; 'permit host .1' stays at the
# end, behind the deny line: host 10.0.0.1 is DENIED, target PERMITS it.
cat > dev3 <<'END'
ip access-list extended test
 remark head
 permit ip host 10.0.0.4 any
 permit ip host 10.0.0.3 any
 permit ip host 10.0.0.1 any

interface Ethernet1
 ip access-group test in
END
cat > spoc3 <<'END'
ip access-list extended test
 permit ip host 10.0.0.1 any
 deny ip 10.0.0.0 0.0.0.255 any
 permit ip host 10.0.0.4 any
 permit ip host 10.0.0.3 any

interface Ethernet1
 ip access-group test in
END
echo "$INFO" > spoc3.info
echo "--- variant with leading remark (BUG: 'permit ip host 10.0.0.1 any' is not moved in front of the new deny line)"
"$DRC" dev3 spoc3
