#!/bin/bash
# Property C15 violation 4 (timing dependent):
# Banner form "command<banner + fresh prompt>" followed by the regular prompt
# (form "ip route ...\BANNER2_prompt/" of the project's own test) is only
# survived if the second prompt is ALREADY in the receive buffer at the very
# moment stripReloadBanner calls console.TryPrompt(), because TryPrompt uses
# Expect(prompt, 0) and never waits. If the device (or the network) delivers
# the second prompt a few milliseconds later, it stays in the buffer, the next
# command reads it as its own output and the run aborts with
# "Got unexpected echo", although the device accepted everything.
# (TryPrompt additionally throws away whatever partial data it found when
# it does not match, since goexpect returns that data with the timeout error.)
#
# Simulation: the project's simulate-cisco.pl, unchanged except that output is
# unbuffered and that it pauses 0.3s behind an echo that was garbled with a
# banner ending in a prompt, i.e. between first and second prompt.
# Expected by property: exit 0, write memory. Observed: ERROR, exit 1.
# Control run with the unmodified simulator (no pause) succeeds.
set -u
REPO=${REPO:-/tmp/wt/C15a}
export GOFLAGS=-mod=mod GOPROXY=off GOSUMDB=off GOTOOLCHAIN=local
W=$(mktemp -d)
trap 'rm -rf "$W"' EXIT
DRC=${DRC:-${BIN:-}}
if [ -z "$DRC" ]; then
    (cd "$REPO/go" && go build -o "$W/drc" ./cmd/drc) || exit 2
    DRC=$W/drc
fi
SIM=${SIM:-$REPO/go/testdata/simulate-cisco.pl}
mkdir -p "$W/code" "$W/log" "$W/lock" "$W/status" "$W/history"
echo '{"model":"IOS","name_list":["router"],"ip_list":["10.1.13.33"]}' > "$W/code/router.info"
echo '* admin secret' > "$W/credentials"
printf 'basedir = %s\ncheckbanner = NetSPoC\nsystemuser = admin\ntimeout = 2\n' "$W" > "$W/.netspoc-approve"

# Standard IOS dialogue, identical to template std_scenario of go/testdata/ios_simul.t
std_scenario() {
printf '%s\n' \
'Enter Password:<!>' \
'banner motd  managed by NetSPoC' \
'router>' \
'# sh ver' \
'Cisco IOS Software, C2900 Software (C2900-UNIVERSALK9-M), Version 15.1(4)M4,' \
'# configure terminal' \
'Enter configuration commands, one per line.  End with CNTL/Z.' \
'# reload in 2' \
'' \
'System configuration has been modified. Save? [yes/no]: <!>' \
'Reload reason: Reload Command' \
'Proceed with reload? [confirm]<!>' \
'# reload cancel' \
'' \
'' \
'***' \
'*** --- SHUTDOWN ABORTED ---' \
'***' \
'# write memory' \
'Building configuration...' \
'  Compressed configuration from 106098 bytes to 30504 bytes[OK]'
}
# Banner definitions, byte-identical to those of test
# "Conf mode, reload banner, small change, write mem" in go/testdata/ios_simul.t
banners() {
printf '# \\BANNER2/\n\n\n\n\007***\n*** --- SHUTDOWN in 0:02:00 ---\n***\n'
printf '# \\BANNER2_prompt/\n\n\n\n\n\n\007***\n*** --- SHUTDOWN in 0:02:00 ---\n***\n\nrouter#\n'
printf '# \\BANNER1/\n\n\n\n\007***\n*** --- SHUTDOWN in 0:01:00 ---\n***\n'
}
run() {
    (cd "$W" && HOME=$W SIMULATE_ROUTER="$SIM router $W/scenario" "$DRC" -q -L "$W/log" code/router)
    echo "=== drc exit code: $?"
    echo "=== log/router.change (dialogue with device):"
    cat -v "$W/log/router.change"; echo
}
ORIG_SIM=$SIM
sed -e 's/^use warnings;/use warnings; use Time::HiRes qw(sleep); $| = 1;/' \
    -e 's/^\( *\)send_line "\$b_cmd\\n";/\1send_line $b_cmd; sleep 0.3 if $b_cmd =~ \/#$\/; send_line "\\n";/' \
    "$ORIG_SIM" > "$W/slow-sim.pl"
chmod +x "$W/slow-sim.pl"
diff "$ORIG_SIM" "$W/slow-sim.pl"
{ std_scenario; printf '# sh run\nip route 10.0.0.0 255.0.0.0 10.1.2.3\n'; banners
  printf '# ip route 10.1.2.0 255.255.255.0 10.2.3.4\\BANNER2_prompt/\n'; } > "$W/scenario"
printf 'ip route 10.0.0.0 255.0.0.0 10.1.2.3\nip route 10.1.2.0 255.255.255.0 10.2.3.4\nip route 10.1.3.0 255.255.255.0 10.2.3.5\n' > "$W/code/router"
echo "##### second prompt behind banner arrives 0.3s late"
SIM=$W/slow-sim.pl
run
echo "##### control: identical scenario, unmodified simulator"
SIM=$ORIG_SIM
run 2>&1 | grep -E "exit code|write memory|OK\]|ERROR"
