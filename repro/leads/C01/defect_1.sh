#!/bin/bash
# NOTE: the device used for "run 2" is the hand-computed result of applying the output
# of run 1 of the UNCHANGED code; with a fixed binary only run 1 is meaningful.
# C01 defect 1: access-group (or "crypto map ... interface") of an interface
# that is unknown to Netspoc, standing FIRST in the device configuration,
# makes drc re-transfer all managed access-groups and their ACLs on every run.
#
# checkASAInterfaces() marks the command bound to the unmanaged interface as
# 'needed'. All access-group commands live in ONE list (name ""), and
# diffCmds() starts with
#     if len(al) > 0 && al[0].needed { addCmds(bl); ... }
# so if the needed command is al[0], the whole list is treated as "already
# equalized" and every access-group from Netspoc is transferred again with a
# fresh ACL (<name>-DRC-<n+1>).
#
# Violation: device below is ALREADY equivalent to the target, yet changes are
# emitted ("*** device changed ***"); after applying them, the next compare
# emits changes again (DRC-1 -> DRC-2 -> ...): never converges, never reports
# 'device unchanged'.  Same device with the two access-group lines swapped
# gives no output.  (Existing test "Check Netspoc interfaces, leave ACL of
# unknown interface unchanged" in asa_parse.t has exactly this shape.)
set -e
export GOFLAGS=-mod=mod GOPROXY=off GOSUMDB=off GOTOOLCHAIN=local
T=$(mktemp -d /tmp/C01a-defect.XXXXXX)
DRC=${DRC:-${BIN:-}}
if [ -z "$DRC" ]; then
  DRC=$T/drc
  (cd ${SRC:-/tmp/wt/C01a/go} && go build -o $DRC ./cmd/drc)
fi
info() { echo '{"model":"ASA","name_list":["router"],"ip_list":["10.1.13.33"]}' > "$1.info"; }
cd $T
cat > spoc <<'END'
access-list inside_in extended deny ip host 10.0.0.1 host 10.0.0.5
access-list inside_in extended permit ip any4 any4
access-group inside_in in interface inside
END
info spoc
mkdev() { # $1 = file, $2 = index of DRC name
cat > $1 <<END
interface Ethernet0/0
 nameif inside
interface Ethernet0/1
 nameif mgmt
access-list mgmt_in extended permit ip any4 host 10.0.0.2
access-list inside_in-DRC-$2 extended deny ip host 10.0.0.1 host 10.0.0.5
access-list inside_in-DRC-$2 extended permit ip any4 any4
access-group mgmt_in in interface mgmt
access-group inside_in-DRC-$2 in interface inside
END
}
mkdev dev0 0
echo "### run 1: device already equal to target, expected: no output"
$DRC dev0 spoc
echo "### run 2: device after applying the commands of run 1 (inside_in-DRC-1 bound,"
echo "###        inside_in-DRC-0 now unreferenced), expected: no output"
mkdev dev1 1
cat >> dev1 <<'END'
access-list inside_in-DRC-0 extended deny ip host 10.0.0.1 host 10.0.0.5
access-list inside_in-DRC-0 extended permit ip any4 any4
END
$DRC dev1 spoc
echo "### control: same device as run 1 with managed access-group listed first: unchanged"
grep -v "^access-group mgmt_in" dev0 > dev0b; echo "access-group mgmt_in in interface mgmt" >> dev0b
$DRC dev0b spoc
