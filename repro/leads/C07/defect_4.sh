#!/bin/bash
# C07 defect 4 (NSX): a raw file may define a policy whose id lacks the
# "Netspoc" prefix; Approve then overwrites the administrator's policy of
# that name on the device (on every run).
#
# LoadDevice ignores all gateway policies not starting with "Netspoc", so the
# existing policy "Admin-Policy" is never read. checkRaw (go/pkg/nsx/parse.go)
# enforces the prefix for groups and services from raw, but not for policies.
# diffConfig therefore regards "Admin-Policy" as missing and sends
#   PUT .../gateway-policies/Admin-Policy  {"id":"Admin-Policy","rules":[<raw rules only>]}
# which is a full replace in the NSX policy API: all rules the administrator
# has in that policy are lost.
# Property violated: on NSX no object whose id lacks the Netspoc prefix is
# altered.
# Demonstrated with the project's own HTTPS simulator through a temporary
# test case (removed afterwards); the expected output "XX" is a dummy, the
# test "fails" and shows the request really sent.
set -e
export GOFLAGS=-mod=mod GOPROXY=off GOSUMDB=off GOTOOLCHAIN=local
WT=${WT:-/tmp/wt/C07b}
T=$WT/go/testdata/nsx_zzc07b.t
trap 'rm -f $T' EXIT
cat > $T <<'END'
=TITLE=Raw policy without Netspoc prefix
=SCENARIO=
POST /api/session/create
H: x-xsrf-token: secret
GET /policy/api/v1/infra/domains/default/gateway-policies
{"results":[{"id":"Admin-Policy"}]}
GET /policy/api/v1/infra/services
{}
GET /policy/api/v1/infra/domains/default/groups
{}
PUT /policy/api/v1/infra/domains/default/gateway-policies/
{}
=NETSPOC=
--router
{}
--router.raw
{
 "policies": [
  { "id": "Admin-Policy",
    "resource_type": "GatewayPolicy",
    "rules": [
     { "resource_type": "Rule", "id": "extra", "action": "ALLOW",
       "sequence_number": 5, "scope": [ "/infra/tier-0s/v1" ],
       "direction": "OUT", "ip_protocol": "IPV4",
       "source_groups": [ "ANY" ], "destination_groups": [ "ANY" ],
       "services": [ "ANY" ] }
    ]
  }
 ]
}
=OUTPUT=
--router.change
XX
=END=
END
cd $WT/go/test
go test -vet=off -count=1 -run 'TestApprove/nsx_zzc07b.t' . 2>&1 | head -30 || true
# Observed (unchanged code), in router.change:
# URI: PUT /policy/api/v1/infra/domains/default/gateway-policies/Admin-Policy
# DATA: {"id":"Admin-Policy","rules":[{"id":"extra",...}]}
