#!/bin/bash
# Must-fail corpus: every stored seeded change of a claimed property must be
# reported by that property's check. Works on a scratch copy of /repo (removed
# afterwards); evidence files are rewritten by these runs, so run
# tools/run_all.sh afterwards before committing.
# usage: tools/selftest.sh [ID-filter]
cd /verif
S=/tmp/selftest_repo.$$
rm -rf $S; mkdir -p $S; rsync -a --exclude .git /repo/ $S/
claimed=$(python3 -c "import json; print(' '.join(c['property_id'] for c in json.load(open('/verif/MANIFEST.json'))['checks']))")
bad=0
for d in /verif/seeded/*/; do
  id=$(basename $d); prop=${id%-*}
  case " $claimed " in *" $prop "*) ;; *) continue;; esac
  [ -n "$1" ] && [[ "$id" != *$1* ]] && continue
  miss=$(python3 -c "import json;print(json.load(open('$d/meta.json')).get('expected_miss',''))")
  if [ -n "$miss" ]; then echo "$id: expected miss ($miss)"; continue; fi
  with=$(python3 -c "import json;print(json.load(open('$d/meta.json')).get('check_with',''))")
  [ -n "$with" ] && prop=$with
  rsync -a --delete --exclude .git /repo/ $S/
  (cd $S && patch -s -p1 < $d/patch.diff) || { echo "$id: patch does not apply"; bad=1; continue; }
  out=$(GOVC_REPO=$S timeout 900 /verif/bin/govc check --property $prop 2>&1)
  if echo "$out" | grep -q "^VIOLATION property=$prop"; then
    echo "$id: detected  $(echo "$out" | grep -m1 '^FAILED' | cut -c1-140)"
  else
    echo "$id: MISSED  $(echo "$out" | tail -1)"; bad=1
  fi
done
rm -rf $S
exit $bad
