#!/bin/bash
# Known finding C17: the API key appears in the error text of a failed PAN-OS
# request. Runs the repository's own pinned scenario "Changing device fails"
# of go/testdata/pan-os_simul.t with the real do-approve/drc code and shows
# the key in the expected (and actual) output. Exit 0 = leak reproduced.
export GOFLAGS=-mod=mod GOPROXY=off GOSUMDB=off GOTOOLCHAIN=local
cd /repo/go || exit 2
out=$(go test -vet=off -count=1 -run 'TestApprove/pan-os_simul.t/Changing_device_fails' -v ./test 2>&1)
echo "$out" | tail -5
if echo "$out" | grep -q -- '--- PASS: TestApprove/pan-os_simul.t/Changing_device_fails' && grep -q 'ERROR>>> Command failed with Get "TESTSERVER/api/?key=LUFRPT=' testdata/pan-os_simul.t; then
  echo "REPRODUCED: the scenario passes, and its expected output contains the plain key (key=LUFRPT=) in an ERROR line"
  exit 0
fi
echo "not reproduced"; exit 1
