#!/bin/bash
# defect_2.sh - Property C09 violation (IOS, device rejects commands of the change dialogue)
#
# ios.(*State).prepareDevice and setTerminal send their commands with
# console.(*Conn).SendCmd, which waits for the next prompt and throws the
# device's answer away. In this scenario the device (e.g. TACACS+ command
# authorization) rejects "line vty 0 15" with "Command authorization failed."
# and consequently rejects the following "logging synchronous level all"
# with "% Invalid input detected at '^' marker." (it is not valid in global
# config mode). Both are config-changing commands sent by approve.
#
# Violation of C09: "If the device rejects a command ... no further change
# command is sent ..., the configuration is not saved, the program exits
# non-zero, do-approve records FAILED ... and END: FAILED".
# Observed: all further commands incl. the route change are sent,
# "write memory" is executed, exit code 0, status file says approve "OK",
# history says "END: OK", and no ERROR>>>/WARNING>>> line is logged at all;
# the rejection is only visible in the raw session log router.change.
# (Same for any error text in answer to: term len 0, term width 512,
# configure terminal, no logging console, ip subnet-zero, ip classless, end;
# and on ASA in asa.(*State).setTerminal: terminal pager 0, configure terminal,
# terminal width 511, end. A per-position injection of an error text into the
# whole dialogue is in /tmp/C09a-scratch/inj/run_ios.sh IOS|ASA, results in
# /tmp/C09a-scratch/inj/ios_inj.txt and asa_inj.txt.)
set -u
BIN=${BIN:-}
SIMPL=${SIMPL:-/tmp/wt/C09a/go/testdata/simulate-cisco.pl}
if [ -z "$BIN" ]; then
    BIN=/tmp/C09a-scratch/do-approve
    if [ ! -x "$BIN" ]; then
        ( cd /tmp/wt/C09a/go && export GOFLAGS=-mod=mod GOPROXY=off GOSUMDB=off GOTOOLCHAIN=local &&
          go build -o "$BIN" ./cmd/do-approve ) || exit 1
    fi
fi
T=$(mktemp -d)
trap 'rm -rf "$T"' EXIT
cd "$T"
mkdir -p policies/p1/code lock status history
ln -s p1 policies/current
cat > policies/p1/code/router.info <<'X'
{"model":"IOS","name_list":["router"],"ip_list":["10.1.13.33"]}
X
cat > policies/p1/code/router <<'X'
ip route 10.20.0.0 255.255.0.0 10.1.2.3
X
echo '* admin secret' > credentials
cat > .netspoc-approve <<X
basedir = $T
checkbanner = NetSPoC
systemuser = admin
timeout = 2
X
cat > scenario <<'X'
Enter Password:<!>
banner motd  managed by NetSPoC
router>
# sh ver
Cisco IOS Software, C2900 Software (C2900-UNIVERSALK9-M), Version 15.1(4)M4,
# configure terminal
Enter configuration commands, one per line.  End with CNTL/Z.
# line vty 0 15
Command authorization failed.

# logging synchronous level all
                    ^
% Invalid input detected at '^' marker.

# reload in 2

System configuration has been modified. Save? [yes/no]: <!>
Reload reason: Reload Command
Proceed with reload? [confirm]<!>
# reload cancel


***
*** --- SHUTDOWN ABORTED ---
***
# write memory
Building configuration...
  Compressed configuration from 106098 bytes to 30504 bytes[OK]
X
export SIMULATE_ROUTER="$SIMPL router $T/scenario" HOME=$T
echo "=== do-approve approve router"
"$BIN" approve router
echo "exit code: $?   (expected: non-zero)"
echo "=== policies/p1/log/router.drc"
cat policies/p1/log/router.drc
echo "=== policies/p1/log/router.change (raw session; shows the rejections and that everything after them was still sent and saved)"
cat policies/p1/log/router.change; echo
echo "=== status/router (expected approve result FAILED)"
cat status/router; echo
echo "=== history/router (expected END: FAILED)"
cat history/router
