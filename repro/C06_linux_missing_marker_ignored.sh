#!/bin/bash
# C06 known finding: a Linux host whose /etc/issue lacks the configured banner
# text is approved anyway: linux.checkBanner records the error in
# s.errUnmanaged but (*linux.State).GetErrUnmanaged returns the constant nil,
# so device.approve never sees it and sends the change commands.
# Exit 0 = defect reproduced (changes sent, exit status 0), 1 = not reproduced.
export GOFLAGS=-mod=mod GOPROXY=off GOSUMDB=off GOTOOLCHAIN=local
REPO=${GOVC_REPO:-/repo}
T=$(mktemp -d); trap 'rm -rf $T' EXIT
(cd $REPO/go && go build -o $T/drc ./cmd/drc) || exit 2
mkdir -p $T/home/code $T/home/lock $T/log
cat > $T/home/.netspoc-approve <<EOC
basedir = $T/home
checkbanner = NetSPoC
systemuser = admin
timeout = 1
EOC
echo "* admin secret" > $T/home/credentials
echo '{"model":"Linux","name_list":["router"],"ip_list":["10.1.13.33"]}' > $T/home/code/router.info
echo 'ip route add 0.0.0.0/0 via 10.1.1.99' > $T/home/code/router
cat > $T/scenario <<'EOC'

root@linux-router:~#
# echo $?
0
# uname -r
3.2.89-2.custom
# uname -m
i686
# hostname -s
router
# grep 'NetSPoC' /etc/issue
# ip route show
0.0.0.0/0 via 10.1.1.1
# iptables-save

EOC
cd $T/home
OUT=$(HOME=$T/home SIMULATE_ROUTER="$REPO/go/testdata/simulate-cisco.pl router $T/scenario" $T/drc -q -L $T/log code/router 2>&1); ST=$?
echo "exit status $ST"; echo "$OUT" | head -5
echo "--- commands sent in change phase:"; cat $T/log/router.change 2>/dev/null | head -8
if [ $ST -eq 0 ] && grep -q "ip route add 0.0.0.0/0 via 10.1.1.99" $T/log/router.change 2>/dev/null; then
  echo "REPRODUCED: change commands sent to a Linux host without the managed-by marker"; exit 0; fi
exit 1
