#!/bin/bash
# C02 defect 3: one device route is removed twice, if Netspoc has two routes
# to the destination of that route.
#
# diffRoutes joins 'no OLD' with the new route for the same destination, but
# never removes OLD from delDst, so every further new route to this destination
# is joined with 'no OLD' again.  IOS answers the second
# 'no ip route 10.20.0.0 255.255.0.0 10.1.1.1' with
# '%No matching route to delete'; ios.cmd() aborts on any unexpected output, the
# configuration is not saved and the scheduled 'reload in 2' is not cancelled.
# Violates: "executing the emitted commands in order yields a device ... whose
# routes in managed VRFs equal the target's".
# Expected 2nd line: plain 'ip route 10.20.0.0 255.255.0.0 10.1.1.3'.
. "$(dirname "$0")/common.sh"
cat > dev <<'END'
ip route 10.20.0.0 255.255.0.0 10.1.1.1
ip route vrf A 10.30.0.0 255.255.0.0 10.2.2.1
END
cat > spoc <<'END'
ip route 10.20.0.0 255.255.0.0 10.1.1.2
ip route 10.20.0.0 255.255.0.0 10.1.1.3
ip route vrf A 10.30.0.0 255.255.0.0 10.2.2.1
END
echo "$INFO" > spoc.info
echo "--- drc dev spoc   (BUG: 'no ip route ... 10.1.1.1' emitted twice)"
"$DRC" dev spoc
