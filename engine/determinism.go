package main

import (
	"go/token"
	"encoding/json"
	"fmt"
	"go/types"
	"os"
	"os/exec"
	"path/filepath"
	"time"
	"sort"
	"strings"

	"golang.org/x/tools/go/ssa"
)

type mapRange struct {
	fn     *ssa.Function
	rng    *ssa.Range
	header string // source line of the for statement
	pos    string
	ord    int
}

// mapRanges lists every range-over-map loop of the repository.
func (e *Engine) mapRanges() []*mapRange {
	var out []*mapRange
	for _, f := range e.allFuncs {
		if f.Synthetic != "" {
			continue
		}
		n := 0
		var local []*mapRange
		for _, b := range f.Blocks {
			for _, ins := range b.Instrs {
				r, ok := ins.(*ssa.Range)
				if !ok {
					continue
				}
				if _, isMap := r.X.Type().Underlying().(*types.Map); !isMap {
					continue
				}
				local = append(local, &mapRange{fn: f, rng: r, header: e.lineText(r.Pos()), pos: posString(e.fset, r.Pos())})
			}
		}
		sort.Slice(local, func(i, j int) bool { return local[i].rng.Pos() < local[j].rng.Pos() })
		for _, m := range local {
			n++
			m.ord = n
			out = append(out, m)
		}
	}
	return out
}

func cmdMapRanges(args []string) {
	e, err := loadEngine(repoDir(), verifDir()+"/specs")
	if err != nil {
		fmt.Fprintln(os.Stderr, err)
		os.Exit(2)
	}
	for _, m := range e.mapRanges() {
		fmt.Printf("%s #%d [%s] %s\n", strings.ReplaceAll(e.funcKey(m.fn), repoPkgPrefix, ""), m.ord, m.pos, m.header)
	}
}

func init() { propRunners["C16"] = runDeterminism }

// emission heaps: writing them changes the change script
func isEmissionHeap(h string) bool {
	return strings.HasSuffix(h, "$Changes") || strings.HasSuffix(h, "$changes") || strings.HasSuffix(h, "State$change") ||
		strings.HasPrefix(h, "H$linux.change$")
}

// loopBlocks: natural loop of the range statement
func (e *Engine) loopOfRange(m *mapRange) *loop {
	li := findLoops(m.fn)
	// the loop whose header contains the Next instruction of this Range
	for _, lp := range li.loops {
		for _, ins := range lp.header.Instrs {
			if n, ok := ins.(*ssa.Next); ok && n.Iter == ssa.Value(m.rng) {
				return lp
			}
		}
	}
	return nil
}

func (e *Engine) reachesWarning(f *ssa.Function, seen map[*ssa.Function]bool) bool {
	if seen[f] {
		return false
	}
	seen[f] = true
	name := f.String()
	if strings.HasSuffix(name, "errlog.Warning") || strings.HasPrefix(name, "fmt.Print") {
		return true
	}
	if !e.inRepo(f) {
		return false
	}
	for _, b := range f.Blocks {
		for _, ins := range b.Instrs {
			if ci, ok := ins.(ssa.CallInstruction); ok {
				for _, g := range e.possibleCallees(ci.Common()) {
					if e.reachesWarning(g, seen) {
						return true
					}
				}
			}
			if mc, ok := ins.(*ssa.MakeClosure); ok {
				if e.reachesWarning(mc.Fn.(*ssa.Function), seen) {
					return true
				}
			}
		}
	}
	return false
}

func runDeterminism(e *Engine, res *checkResult, timeout int, two bool, work string, stats *solveStats) {
	p := res.prop
	// contract clauses tagged with the property (comparators that must
	// separate different keys) are proved like for every other property
	runContractProperty(e, res, timeout, two, work, stats)
	mk := func(name, text string, ok bool, pos, detail string) *Obligation {
		goal := "true"
		if !ok {
			goal = "false"
		}
		return &Obligation{Name: name, Kind: "scan", Props: []string{p}, Func: "scan", Pos: pos, Text: text, Goal: goal, Reach: "true", ft: e.newFT(nil), SrcLine: detail}
	}
	var obls []*Obligation
	var justified []map[string]string
	for _, m := range e.mapRanges() {
		key := e.funcKey(m.fn)
		short := strings.ReplaceAll(key, repoPkgPrefix, "")
		var rule *MapRangeRule
		for _, r := range e.cs.MapRanges {
			if r.Func == key && r.Ord == m.ord && hasProp(r.Props, p) {
				rule = r
			}
		}
		id := fmt.Sprintf("%s#%d", short, m.ord)
		if rule == nil {
			obls = append(obls, mk("maprange/justified/"+id, "map iteration is justified as order independent", false, m.pos,
				"range over a map without a maprange justification in the contract file: "+m.header))
			continue
		}
		rule.used = true
		if !strings.Contains(m.header, rule.Header) {
			obls = append(obls, mk("maprange/justified/"+id, "justification matches the loop", false, m.pos,
				fmt.Sprintf("header %q of the justification does not match source %q", rule.Header, m.header)))
			continue
		}
		obls = append(obls, mk("maprange/justified/"+id, rule.Kind+": "+rule.Reason, true, m.pos, m.header))
		justified = append(justified, map[string]string{"loop": id, "at": m.pos, "kind": rule.Kind, "argument": rule.Reason})
		res.funcs = appendUniq(res.funcs, short)
		lp := e.loopOfRange(m)
		if lp == nil {
			continue
		}
		if rule.Kind == "accumulate" {
			// (a) no early exit: every edge leaving the loop starts at the header,
			// except into blocks that end the run (panic / Abort)
			early := ""
			for b := range lp.body {
				for _, s := range b.Succs {
					if lp.body[s] || b == lp.header {
						continue
					}
					early = fmt.Sprintf("block %d leaves the loop early (break/return)", b.Index)
				}
				for _, ins := range b.Instrs {
					if _, ok := ins.(*ssa.Return); ok && b != lp.header {
						early = fmt.Sprintf("return inside the loop (block %d)", b.Index)
					}
				}
			}
			obls = append(obls, mk("maprange/no-early-exit/"+id, "loop visits every entry", early == "", m.pos, early))
			// (b) no emission of commands or warnings from inside the loop
			emits := ""
			ms := map[string]int{}
			for b := range lp.body {
				for _, ins := range b.Instrs {
					e.instrWritesLevel(ins, ms)
					if ci, ok := ins.(ssa.CallInstruction); ok {
						for _, g := range e.possibleCallees(ci.Common()) {
							if e.reachesWarning(g, map[*ssa.Function]bool{}) {
								emits = "calls " + shortFuncName(g) + " which can print a warning"
							}
						}
					}
				}
			}
			for h := range ms {
				if isEmissionHeap(h) {
					emits = "writes " + h
				}
			}
			obls = append(obls, mk("maprange/no-emission/"+id, "loop body emits neither commands nor warnings", emits == "", m.pos, emits))
			// (c) no read-after-write across iterations through a map: a map that the
			// body writes may be read in the body only at the iteration key (for the
			// ranged map itself) or at a key the body also writes
			cross := ""
			iterKeys := map[ssa.Value]bool{}
			for b := range lp.body {
				for _, ins := range b.Instrs {
					if ex, ok := ins.(*ssa.Extract); ok && ex.Index == 1 {
						if n, ok := ex.Tuple.(*ssa.Next); ok && n.Iter == ssa.Value(m.rng) {
							iterKeys[ex] = true
						}
					}
				}
			}
			// closures of this function that the loop body calls share its
			// variables: a map variable captured by such a closure that the
			// closure (or the body) writes and a closure reads carries state from
			// one iteration to the next
			capName := func(v ssa.Value) string {
				if u, ok := v.(*ssa.UnOp); ok && u.Op == token.MUL {
					switch a := u.X.(type) {
					case *ssa.FreeVar:
						return a.Name()
					case *ssa.Alloc:
						return a.Comment
					}
				}
				return ""
			}
			var called []*ssa.Function
			seenFn := map[*ssa.Function]bool{}
			for b := range lp.body {
				for _, ins := range b.Instrs {
					ci, ok := ins.(ssa.CallInstruction)
					if !ok {
						continue
					}
					for _, g := range e.possibleCallees(ci.Common()) {
						if g.Parent() == m.fn && !seenFn[g] {
							seenFn[g] = true
							called = append(called, g)
						}
					}
				}
			}
			capWritten := map[string]bool{}
			scanWrites := func(blocks []*ssa.BasicBlock) {
				for _, b := range blocks {
					for _, ins := range b.Instrs {
						switch x := ins.(type) {
						case *ssa.MapUpdate:
							if n := capName(x.Map); n != "" {
								capWritten[n] = true
							}
						case ssa.CallInstruction:
							if bi, ok := x.Common().Value.(*ssa.Builtin); ok && bi.Name() == "delete" && len(x.Common().Args) == 2 {
								if n := capName(x.Common().Args[0]); n != "" {
									capWritten[n] = true
								}
							}
						}
					}
				}
			}
			for _, g := range called {
				scanWrites(g.Blocks)
			}
			for _, g := range called {
				for _, b := range g.Blocks {
					for _, ins := range b.Instrs {
						if lk, ok := ins.(*ssa.Lookup); ok {
							if _, isMap := lk.X.Type().Underlying().(*types.Map); !isMap {
								continue
							}
							if n := capName(lk.X); n != "" && capWritten[n] {
								cross = fmt.Sprintf("%s (in a closure called by the loop) reads the captured map %s that a closure called by the loop writes", e.lineText(lk.Pos()), n)
							}
						}
					}
				}
			}
			written := map[ssa.Value]map[ssa.Value]bool{}
			for b := range lp.body {
				for _, ins := range b.Instrs {
					switch x := ins.(type) {
					case *ssa.MapUpdate:
						if written[x.Map] == nil {
							written[x.Map] = map[ssa.Value]bool{}
						}
						written[x.Map][x.Key] = true
					case ssa.CallInstruction:
						if bi, ok := x.Common().Value.(*ssa.Builtin); ok && bi.Name() == "delete" && len(x.Common().Args) == 2 {
							mm := x.Common().Args[0]
							if written[mm] == nil {
								written[mm] = map[ssa.Value]bool{}
							}
							written[mm][x.Common().Args[1]] = true
						}
					}
				}
			}
			for b := range lp.body {
				for _, ins := range b.Instrs {
					lk, ok := ins.(*ssa.Lookup)
					if !ok || written[lk.X] == nil {
						continue
					}
					if _, isMap := lk.X.Type().Underlying().(*types.Map); !isMap {
						continue
					}
					okKey := written[lk.X][lk.Index] || (lk.X == m.rng.X && iterKeys[lk.Index])
					if c, isConst := lk.Index.(*ssa.Const); isConst && !okKey {
						// a constant key: fine only if the same constant is written
						for wk := range written[lk.X] {
							if wc, ok := wk.(*ssa.Const); ok && wc.Value != nil && c.Value != nil && wc.Value.ExactString() == c.Value.ExactString() {
								okKey = true
							}
						}
					}
					if !okKey {
						cross = fmt.Sprintf("%s reads a map that the loop body writes, at a key that is neither the iteration key nor a written key", e.lineText(lk.Pos()))
					}
				}
			}
			obls = append(obls, mk("maprange/no-cross-iteration-read/"+id, "loop body does not read what another iteration may have written", cross == "", m.pos, cross))
		}
	}
	for _, r := range e.cs.MapRanges {
		if !r.used && hasProp(r.Props, p) {
			res.notes = append(res.notes, fmt.Sprintf("stale maprange justification %s #%d (%s:%d)", r.Func, r.Ord, r.File, r.Line))
		}
	}
	// other sources of nondeterminism in planning code
	bad := []string{}
	for _, f := range e.allFuncs {
		if !e.isPlanning(f) {
			continue
		}
		for _, b := range f.Blocks {
			for _, ins := range b.Instrs {
				switch x := ins.(type) {
				case *ssa.Go, *ssa.Select:
					bad = append(bad, shortFuncName(f)+": goroutine/select")
				case ssa.CallInstruction:
					if g := x.Common().StaticCallee(); g != nil {
						n := g.String()
						if n == "time.Now" || strings.HasSuffix(n, "mytime.Now") || strings.HasPrefix(n, "math/rand") || strings.HasPrefix(n, "crypto/rand") || n == "os.Getpid" {
							bad = append(bad, shortFuncName(f)+": calls "+n)
						}
					}
				}
			}
		}
	}
	obls = append(obls, mk("scan/no-time-random-concurrency-in-planning", "planning code uses no clock, random numbers, goroutines or select", len(bad) == 0, "-", strings.Join(bad, "; ")))
	// the whole repository (device dialogue included) is sequential: a goroutine,
	// channel operation or select anywhere makes the order of requests and of
	// collected data depend on scheduling
	conc := []string{}
	for _, f := range e.allFuncs {
		if !e.inRepo(f) || strings.Contains(e.fset.Position(f.Pos()).Filename, "_test.go") {
			continue
		}
		for _, b := range f.Blocks {
			for _, ins := range b.Instrs {
				switch x := ins.(type) {
				case *ssa.Go, *ssa.Select, *ssa.Send, *ssa.MakeChan:
					conc = append(conc, shortFuncName(f)+": "+e.lineText(ins.Pos()))
				case *ssa.UnOp:
					if x.Op == token.ARROW {
						conc = append(conc, shortFuncName(f)+": channel receive")
					}
				}
			}
		}
	}
	obls = append(obls, mk("scan/repository-is-sequential", "no goroutine, channel or select in non-test code", len(conc) == 0, "-", strings.Join(conc, "; ")))
	discharge(obls, "", timeout, false, work, stats)
	res.obls = append(res.obls, obls...)
	res.extra["map_range_loops"] = justified
	res.extra["level"] = "other"
	res.extra["explanation"] = "every range-over-map loop of the repository must carry a maprange justification in the contract file (kind accumulate: mechanically checked to have no early exit and to emit neither commands nor warnings inside the loop, the written argument says why the accumulated data is order free; kind first-match: argued by uniqueness of the match); a new or changed map iteration without justification fails its named obligation; planning code is scanned for clock, random, goroutine and select use; bounded part: repeated in-process planning runs on the test data compared byte for byte"
	runBoundedC16(e, res, work)
}

func (e *Engine) isPlanning(f *ssa.Function) bool {
	p := e.pkgOf(f)
	if p == nil {
		return false
	}
	path := p.Pkg.Path()
	if strings.HasSuffix(path, "/pkg/cisco") {
		file := e.fset.Position(f.Pos()).Filename
		return !strings.HasSuffix(file, "device.go")
	}
	for _, pk := range []string{"/pkg/nsx", "/pkg/panos", "/pkg/linux"} {
		if strings.HasSuffix(path, pk) {
			file := e.fset.Position(f.Pos()).Filename
			return strings.HasSuffix(file, "diff.go") || strings.HasSuffix(file, "parse.go") || strings.HasSuffix(file, "config.go")
		}
	}
	return false
}

// runBoundedC16: the real planners are run repeatedly in one process on every
// test-data case and on the tie inputs of /verif/repro/C16 (several identical
// groups, equal peers, several differing options); script, warnings and status
// must be byte-identical.
func runBoundedC16(e *Engine, res *checkResult, work string) {
	vdir := verifDir()
	bin, env, ok := buildBoundedRunner(res, work)
	if !ok {
		return
	}
	n := "6"
	if res.tier == "thorough" {
		n = "60"
	}
	outFile := filepath.Join(work, "det.json")
	t0 := time.Now()
	run := exec.Command(bin, "-determinism", n, "-extra", filepath.Join(vdir, "repro", "C16"), "-testdata", filepath.Join(repoDir(), "testdata"), "-out", outFile)
	run.Env = env
	run.CombinedOutput()
	data, err := os.ReadFile(outFile)
	if err != nil {
		res.notes = append(res.notes, "bounded determinism runner produced no result")
		return
	}
	var dr struct {
		Cases, Runs      int
		Nondeterministic []struct {
			Model, Device, Netspoc, Raw string
			Outputs                     []string
		}
	}
	json.Unmarshal(data, &dr)
	for i, c := range dr.Nondeterministic {
		os.MkdirAll(filepath.Join(vdir, "replays", res.prop), 0755)
		rp := filepath.Join(vdir, "replays", res.prop, fmt.Sprintf("nondeterministic_%d.json", i))
		jd, _ := json.MarshalIndent(c, "", " ")
		os.WriteFile(rp, jd, 0644)
		res.violations = append(res.violations, violation{name: fmt.Sprintf("%d different results of planning on identical %s input (see replay file; /verif/repro/C16_nondet.sh reproduces with the real binary)", len(c.Outputs), c.Model), replay: rp, confirmed: true})
	}
	res.bounded = append(res.bounded, map[string]any{
		"what":       "real ParseConfig/MergeSpoc/GetChanges/ShowChanges run repeatedly in one process (Go randomises map iteration per loop); change script, WARNING lines and status compared",
		"bound":      "every DEVICE/NETSPOC/RAW case of go/testdata/*.t plus the tie inputs in /verif/repro/C16, " + n + " runs each",
		"cases":      dr.Cases,
		"executions": dr.Runs,
		"seconds":    round2(time.Since(t0).Seconds()),
		"label":      "bounded (not counted as proved)",
	})
}
