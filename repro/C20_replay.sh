#!/bin/bash
# Replays one stored C20 reproducer (JSON: model, device, netspoc, raw) on the
# real parsers/planners built from /repo. Exit 0 = runtime panic reproduced.
export GOFLAGS=-mod=mod GOPROXY=off GOSUMDB=off GOTOOLCHAIN=local
T=$(mktemp -d); trap 'rm -rf $T' EXIT
(cd /verif/fuzz && cp /repo/go/go.sum . && go build -o $T/fuzzrun .) || exit 2
$T/fuzzrun -replay "$1"
