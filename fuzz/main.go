// Bounded stand-in for C20 and replay helper: runs the real parsers and
// planners of /repo on a deterministically enumerated family of malformed
// configurations derived from every configuration line of go/testdata/*.t
// (word-prefix truncations, single-token deletions, duplications, swaps,
// indentation changes, line deletion/duplication, empty and garbage files),
// for all five device types and both argument positions, and reports every
// runtime panic (deliberate errlog aborts are not crashes) and every
// execution that does not return within the hang limit.
package main

import (
	"encoding/json"
	"flag"
	"fmt"
	"os"
	"path/filepath"
	"regexp"
	"runtime/debug"
	"sort"
	"strings"
	"sync"
	"time"

	"github.com/hknutzen/Netspoc-Approve/go/pkg/asa"
	"github.com/hknutzen/Netspoc-Approve/go/pkg/codefiles"
	"github.com/hknutzen/Netspoc-Approve/go/pkg/deviceconf"
	"github.com/hknutzen/Netspoc-Approve/go/pkg/errlog"
	"github.com/hknutzen/Netspoc-Approve/go/pkg/ios"
	"github.com/hknutzen/Netspoc-Approve/go/pkg/linux"
	"github.com/hknutzen/Netspoc-Approve/go/pkg/nsx"
	"github.com/hknutzen/Netspoc-Approve/go/pkg/panos"
)

type realDevice interface {
	ParseConfig(data []byte, fName string) (deviceconf.Config, error)
	GetChanges(c1, c2 deviceconf.Config) error
	ShowChanges() string
}

// plan runs parse+merge+diff once and returns everything observable:
// change script, warnings (stderr log) and error/abort status.
func plan(model, dev, spoc, raw, logFile string) (out string) {
	os.Remove(logFile)
	errlog.SetStderrLog(logFile)
	status := "ok"
	script := ""
	func() {
		defer func() {
			if r := recover(); r != nil {
				if fmt.Sprintf("%T", r) == "errlog.bailout" {
					status = "abort"
				} else {
					status = "panic"
				}
			}
		}()
		d := newDevice(model)
		c1, err := d.ParseConfig([]byte(dev), "device")
		if err != nil {
			status = "error"
			return
		}
		c2, err := d.ParseConfig([]byte(spoc), "netspoc")
		if err != nil {
			status = "error"
			return
		}
		if raw != "" {
			c3, err := d.ParseConfig([]byte(raw), "netspoc.raw")
			if err != nil {
				status = "error"
				return
			}
			c2 = c2.MergeSpoc(c3)
		}
		if err := d.GetChanges(c1, c2); err != nil {
			status = "error"
			return
		}
		script = d.ShowChanges()
	}()
	warn, _ := os.ReadFile(logFile)
	var wl []string
	for _, l := range strings.Split(string(warn), "\n") {
		if strings.HasPrefix(l, "WARNING>>>") {
			wl = append(wl, l)
		}
	}
	return status + "\n" + strings.Join(wl, "\n") + "\n" + script
}

func newDevice(model string) realDevice {
	switch model {
	case "ASA":
		return asa.Setup()
	case "IOS":
		return ios.Setup()
	case "Linux":
		return &linux.State{}
	case "NSX":
		return &nsx.State{}
	case "PAN-OS":
		return &panos.State{}
	}
	return nil
}

type finding struct {
	Site   string `json:"site"`
	Panic  string `json:"panic"`
	Model  string `json:"model"`
	Device string `json:"device"`
	Spoc   string `json:"netspoc"`
	Raw    string `json:"raw,omitempty"`
	Count  int    `json:"count"`
}

var frameRe = regexp.MustCompile(`(/repo/go/pkg/[^\s:]+\.go):(\d+)`)

// run executes parse + merge + diff; returns panic site ("" if none)
// watchdog: the input that is being executed and since when; a run that does
// not return within hangLimit is a hang (the property demands termination)
var watch struct {
	mu                    sync.Mutex
	active                bool
	start                 time.Time
	model, dev, spoc, raw string
}
var hangLimit = 20 * time.Second
var onHang func(model, dev, spoc, raw string)

func startWatchdog() {
	go func() {
		for {
			time.Sleep(500 * time.Millisecond)
			watch.mu.Lock()
			hung := watch.active && time.Since(watch.start) > hangLimit
			m, d, sp, r := watch.model, watch.dev, watch.spoc, watch.raw
			watch.mu.Unlock()
			if hung && onHang != nil {
				onHang(m, d, sp, r)
			}
		}
	}()
}

func run(model, dev, spoc, raw string) (site, msg string) {
	watch.mu.Lock()
	watch.active, watch.start, watch.model, watch.dev, watch.spoc, watch.raw = true, time.Now(), model, dev, spoc, raw
	watch.mu.Unlock()
	defer func() {
		watch.mu.Lock()
		watch.active = false
		watch.mu.Unlock()
	}()
	defer func() {
		if r := recover(); r != nil {
			if fmt.Sprintf("%T", r) == "errlog.bailout" {
				return
			}
			st := string(debug.Stack())
			msg = fmt.Sprint(r)
			// first repository frame below the panic
			idx := strings.Index(st, "panic(")
			if idx < 0 {
				idx = 0
			}
			if m := frameRe.FindStringSubmatch(st[idx:]); m != nil {
				site = strings.TrimPrefix(m[1], "/repo/go/") + ":" + m[2]
			} else {
				site = "unknown"
			}
		}
	}()
	d := newDevice(model)
	c1, err := d.ParseConfig([]byte(dev), "device")
	if err != nil {
		return
	}
	c2, err := d.ParseConfig([]byte(spoc), "netspoc")
	if err != nil {
		return
	}
	if raw != "" {
		c3, err := d.ParseConfig([]byte(raw), "netspoc.raw")
		if err != nil {
			return
		}
		c2 = c2.MergeSpoc(c3)
	}
	d.GetChanges(c1, c2)
	return
}

func runInfo(path string) (site, msg string) {
	defer func() {
		if r := recover(); r != nil {
			if fmt.Sprintf("%T", r) == "errlog.bailout" {
				return
			}
			st := string(debug.Stack())
			msg = fmt.Sprint(r)
			idx := strings.Index(st, "panic(")
			if idx < 0 {
				idx = 0
			}
			if m := frameRe.FindStringSubmatch(st[idx:]); m != nil {
				site = strings.TrimPrefix(m[1], "/repo/go/") + ":" + m[2]
			} else {
				site = "unknown"
			}
		}
	}()
	codefiles.LoadInfoFile(path)
	codefiles.GetIPPDP(path)
	return
}

type testCase struct{ model, dev, spoc, raw string }

func modelOf(file string) string {
	b := filepath.Base(file)
	switch {
	case strings.HasPrefix(b, "asa"):
		return "ASA"
	case strings.HasPrefix(b, "ios"):
		return "IOS"
	case strings.HasPrefix(b, "linux"):
		return "Linux"
	case strings.HasPrefix(b, "nsx"):
		return "NSX"
	case strings.HasPrefix(b, "pan-os"):
		return "PAN-OS"
	}
	return ""
}

// parse the testtxt format loosely: sections =DEVICE=, =NETSPOC=, =RAW= of each =TITLE=
func loadCases(dir string) []testCase {
	var out []testCase
	files, _ := filepath.Glob(filepath.Join(dir, "*.t"))
	sort.Strings(files)
	for _, f := range files {
		model := modelOf(f)
		if model == "" {
			continue
		}
		data, err := os.ReadFile(f)
		if err != nil {
			continue
		}
		templ := map[string]string{}
		var cur testCase
		section := ""
		name := ""
		var buf []string
		flush := func() {
			text := strings.Join(buf, "\n")
			if len(buf) > 0 {
				text += "\n"
			}
			switch section {
			case "DEVICE":
				cur.dev = text
			case "NETSPOC":
				cur.spoc = text
			case "RAW":
				cur.raw = text
			case "TEMPL":
				templ[name] = text
			}
			buf = nil
		}
		emit := func() {
			if cur.dev != "" || cur.spoc != "" {
				cur.model = model
				out = append(out, cur)
			}
			cur = testCase{}
		}
		secRe := regexp.MustCompile(`^=([A-Z0-9_]+)=(.*)$`)
		for _, line := range strings.Split(string(data), "\n") {
			if m := secRe.FindStringSubmatch(line); m != nil {
				flush()
				section = m[1]
				name = strings.TrimSpace(m[2])
				if section == "TITLE" {
					emit()
				}
				if (section == "DEVICE" || section == "NETSPOC") && name != "" && name != "NONE" {
					// single line value or template reference
					buf = append(buf, name)
				}
				continue
			}
			if strings.HasPrefix(line, "####") {
				continue
			}
			buf = append(buf, line)
		}
		flush()
		emit()
		// expand simple template references [[name]]
		for i := range out {
			for k, v := range templ {
				out[i].dev = strings.ReplaceAll(out[i].dev, "[["+k+"]]\n", v)
				out[i].spoc = strings.ReplaceAll(out[i].spoc, "[["+k+"]]\n", v)
			}
		}
	}
	return out
}

// mutations of one line
func mutateLine(l string) []string {
	var out []string
	indent := l[:len(l)-len(strings.TrimLeft(l, " "))]
	words := strings.Fields(l)
	for i := 1; i < len(words); i++ { // word-prefix truncations
		out = append(out, indent+strings.Join(words[:i], " "))
	}
	for i := range words { // single token deletion / duplication
		w := append(append([]string{}, words[:i]...), words[i+1:]...)
		out = append(out, indent+strings.Join(w, " "))
		w2 := append(append(append([]string{}, words[:i+1]...), words[i]), words[i+1:]...)
		out = append(out, indent+strings.Join(w2, " "))
	}
	for i := 0; i+1 < len(words); i++ { // swaps
		w := append([]string{}, words...)
		w[i], w[i+1] = w[i+1], w[i]
		out = append(out, indent+strings.Join(w, " "))
	}
	for i := 1; i < len(words); i++ { // double blank at every position
		out = append(out, indent+strings.Join(words[:i], " ")+"  "+strings.Join(words[i:], " "))
	}
	// indentation changes
	if indent == "" {
		out = append(out, " "+l)
	} else {
		out = append(out, strings.TrimLeft(l, " "))
	}
	return out
}

// structural mutations of JSON documents (NSX): every array replaced by [],
// [null] and its first element only; every object member deleted; every
// string emptied; every value replaced by null
func mutateJSON(t string) []string {
	var root any
	if json.Unmarshal([]byte(t), &root) != nil {
		return nil
	}
	var out []string
	emit := func() {
		b, err := json.Marshal(root)
		if err == nil {
			out = append(out, string(b))
		}
	}
	var walk func(get func() any, set func(any))
	walk = func(get func() any, set func(any)) {
		v := get()
		for _, repl := range []any{nil, []any{}, []any{nil}, map[string]any{}, ""} {
			set(repl)
			emit()
		}
		set(v)
		switch x := v.(type) {
		case []any:
			if len(x) > 1 {
				set(x[:1])
				emit()
				set(v)
			}
			for i := range x {
				i := i
				walk(func() any { return x[i] }, func(n any) { x[i] = n })
			}
		case map[string]any:
			keys := make([]string, 0, len(x))
			for k := range x {
				keys = append(keys, k)
			}
			sort.Strings(keys)
			for _, k := range keys {
				k := k
				old := x[k]
				delete(x, k)
				emit()
				x[k] = old
				walk(func() any { return x[k] }, func(n any) { x[k] = n })
			}
		}
	}
	walk(func() any { return root }, func(n any) { root = n })
	return out
}

var xmlElemRe = regexp.MustCompile(`(?s)<([A-Za-z0-9_-]+)([^<>]*)>(.*?)</([A-Za-z0-9_-]+)>`)

// structural mutations of XML documents (PAN-OS): each element (found by a
// simple regexp, innermost first) deleted, emptied, or stripped of attributes
func mutateXML(t string) []string {
	var out []string
	locs := xmlElemRe.FindAllStringSubmatchIndex(t, -1)
	for n, l := range locs {
		if n > 200 {
			break
		}
		if t[l[2]:l[3]] != t[l[8]:l[9]] {
			continue
		}
		out = append(out, t[:l[0]]+t[l[1]:])                                  // delete element
		out = append(out, t[:l[6]]+t[l[7]:])                                  // empty content
		out = append(out, t[:l[4]]+t[l[5]:])                                  // drop attributes
		out = append(out, t[:l[0]]+t[l[0]:l[1]]+t[l[0]:l[1]]+t[l[1]:])       // duplicate element
	}
	return out
}

func mutateText(t string, maxLines int) []string {
	lines := strings.Split(strings.TrimRight(t, "\n"), "\n")
	var out []string
	out = append(out, "", "garbage\n", "\x00\x01\x02", "{", "<", "[null]")
	trimmed := strings.TrimSpace(t)
	if strings.HasPrefix(trimmed, "{") {
		out = append(out, mutateJSON(t)...)
	}
	if strings.HasPrefix(trimmed, "<") {
		out = append(out, mutateXML(t)...)
	}
	for i, l := range lines {
		if i >= maxLines {
			break
		}
		if strings.TrimSpace(l) == "" {
			continue
		}
		for _, m := range mutateLine(l) {
			nl := append(append(append([]string{}, lines[:i]...), m), lines[i+1:]...)
			out = append(out, strings.Join(nl, "\n")+"\n")
		}
		// line deletion and duplication
		nl := append(append([]string{}, lines[:i]...), lines[i+1:]...)
		out = append(out, strings.Join(nl, "\n")+"\n")
		nl2 := append(append(append([]string{}, lines[:i+1]...), l), lines[i+1:]...)
		out = append(out, strings.Join(nl2, "\n")+"\n")
	}
	return out
}

func main() {
	dir := flag.String("testdata", "/repo/go/testdata", "directory with *.t files")
	out := flag.String("out", "", "write findings JSON here")
	maxLines := flag.Int("maxlines", 40, "mutate at most this many lines per text")
	maxCases := flag.Int("maxcases", 0, "limit number of test cases (0 = all)")
	only := flag.String("model", "", "restrict to one model")
	replay := flag.String("replay", "", "replay one finding (JSON file with model/device/netspoc/raw): exit 0 if it panics")
	determinism := flag.Int("determinism", 0, "C16: plan every test case N times and compare script, warnings and status")
	corpus := flag.String("corpus", "", "C20: directory with stored reproducers (JSON: model, device, netspoc, raw) replayed on every run")
	extra := flag.String("extra", "", "C16: directory with extra MODEL_name.device / .netspoc pairs (optional .raw)")
	hang := flag.Int("hang", 20, "seconds after which one execution counts as a hang")
	flag.Parse()
	hangLimit = time.Duration(*hang) * time.Second
	if *determinism > 0 {
		tmp, _ := os.MkdirTemp("", "fuzzdet")
		defer os.RemoveAll(tmp)
		logFile := filepath.Join(tmp, "log")
		cases := loadCases(*dir)
		if *extra != "" {
			devs, _ := filepath.Glob(filepath.Join(*extra, "*.device"))
			for _, d := range devs {
				base := strings.TrimSuffix(d, ".device")
				dv, _ := os.ReadFile(d)
				sp, _ := os.ReadFile(base + ".netspoc")
				rw, _ := os.ReadFile(base + ".raw") // optional raw file
				model := map[string]string{"asa": "ASA", "ios": "IOS", "linux": "Linux", "nsx": "NSX", "panos": "PAN-OS"}[strings.SplitN(filepath.Base(base), "_", 2)[0]]
				cases = append(cases, testCase{model: model, dev: string(dv), spoc: string(sp), raw: string(rw)})
			}
		}
		type nd struct {
			Model, Device, Netspoc, Raw string
			Outputs                     []string
		}
		var bad []nd
		runs := 0
		for _, c := range cases {
			first := plan(c.model, c.dev, c.spoc, c.raw, logFile)
			runs++
			outs := map[string]bool{first: true}
			for i := 1; i < *determinism; i++ {
				outs[plan(c.model, c.dev, c.spoc, c.raw, logFile)] = true
				runs++
			}
			if len(outs) > 1 {
				var l []string
				for o := range outs {
					l = append(l, o)
				}
				sort.Strings(l)
				bad = append(bad, nd{c.model, c.dev, c.spoc, c.raw, l})
			}
		}
		res := map[string]any{"cases": len(cases), "runs": runs, "nondeterministic": bad}
		data, _ := json.MarshalIndent(res, "", " ")
		if *out != "" {
			os.WriteFile(*out, data, 0644)
		}
		fmt.Printf("cases=%d runs=%d nondeterministic=%d\n", len(cases), runs, len(bad))
		return
	}
	if *replay != "" {
		data, err := os.ReadFile(*replay)
		if err != nil {
			fmt.Println(err)
			os.Exit(2)
		}
		var f finding
		json.Unmarshal(data, &f)
		errlog.Quiet = true
		errlog.SetStderrLog("/dev/null")
		onHang = func(m, d, sp, r string) {
			fmt.Printf("REPRODUCED: no termination within %v\n", hangLimit)
			os.Exit(0)
		}
		startWatchdog()
		site, msg := run(f.Model, f.Device, f.Spoc, f.Raw)
		if site != "" {
			fmt.Printf("REPRODUCED: runtime panic at %s: %s\n", site, msg)
			os.Exit(0)
		}
		fmt.Println("no panic")
		os.Exit(1)
	}
	errlog.Quiet = true
	errlog.SetStderrLog("/dev/null")
	// silence warnings printed to stderr by the repository code
	devnull, _ := os.OpenFile("/dev/null", os.O_WRONLY, 0)
	os.Stderr = devnull
	cases := loadCases(*dir)
	found := map[string]*finding{}
	runs := 0
	ncases := 0
	corpusRuns := 0
	// a hang ends the exploration: the findings so far and the hanging input are
	// written, the rest of the family stays unexplored in this run
	onHang = func(m, d, sp, r string) {
		var list []*finding
		for _, f := range found {
			list = append(list, f)
		}
		list = append(list, &finding{Site: "hang", Panic: fmt.Sprintf("no termination within %v", hangLimit), Model: m, Device: d, Spoc: sp, Raw: r, Count: 1})
		sort.Slice(list, func(i, j int) bool { return list[i].Site < list[j].Site })
		res := map[string]any{"cases": ncases, "runs": runs, "corpus_runs": corpusRuns, "panic_sites": len(list), "findings": list, "aborted_by_hang": true}
		data, _ := json.MarshalIndent(res, "", " ")
		if *out != "" {
			os.WriteFile(*out, data, 0644)
		}
		os.Stdout.WriteString(fmt.Sprintf("HANG [%s]: no termination within %v\n", m, hangLimit))
		os.Exit(3)
	}
	startWatchdog()
	record := func(site, msg string, c testCase, dev, spoc, raw string) {
		if site == "" {
			return
		}
		if f, ok := found[site]; ok {
			f.Count++
			// keep the shortest reproducer
			if len(dev)+len(spoc)+len(raw) < len(f.Device)+len(f.Spoc)+len(f.Raw) {
				f.Device, f.Spoc, f.Raw, f.Panic = dev, spoc, raw, msg
			}
			return
		}
		found[site] = &finding{Site: site, Panic: msg, Model: c.model, Device: dev, Spoc: spoc, Raw: raw, Count: 1}
	}
	// regression corpus: the stored reproducers of repaired defects (and of
	// known findings) are members of the property's input family that the
	// mutation of the first lines does not reach: replay each of them
	if *corpus != "" {
		files, _ := filepath.Glob(filepath.Join(*corpus, "*.json"))
		sort.Strings(files)
		for _, f := range files {
			data, err := os.ReadFile(f)
			if err != nil {
				continue
			}
			var in struct {
				Model   string `json:"model"`
				Device  string `json:"device"`
				Netspoc string `json:"netspoc"`
				Raw     string `json:"raw"`
			}
			if json.Unmarshal(data, &in) != nil || in.Model == "" {
				continue
			}
			c := testCase{model: in.Model, dev: in.Device, spoc: in.Netspoc, raw: in.Raw}
			site, m := run(c.model, c.dev, c.spoc, c.raw)
			runs++
			corpusRuns++
			record(site, m, c, c.dev, c.spoc, c.raw)
		}
	}
	for _, c := range cases {
		if *only != "" && c.model != *only {
			continue
		}
		if *maxCases > 0 && ncases >= *maxCases {
			break
		}
		ncases++
		s, m := run(c.model, c.dev, c.spoc, c.raw)
		runs++
		record(s, m, c, c.dev, c.spoc, c.raw)
		for _, d := range mutateText(c.dev, *maxLines) {
			s, m := run(c.model, d, c.spoc, c.raw)
			runs++
			record(s, m, c, d, c.spoc, c.raw)
		}
		for _, sp := range mutateText(c.spoc, *maxLines) {
			s, m := run(c.model, c.dev, sp, c.raw)
			runs++
			record(s, m, c, c.dev, sp, c.raw)
		}
		if c.raw != "" {
			for _, r := range mutateText(c.raw, *maxLines) {
				s, m := run(c.model, c.dev, c.spoc, r)
				runs++
				record(s, m, c, c.dev, c.spoc, r)
			}
		} else {
			// no raw file in the test case: the netspoc text as raw file (raw files
			// share the syntax) and structurally minimal raw files
			raws := []string{c.spoc}
			switch c.model {
			case "PAN-OS":
				raws = append(raws, "<config></config>", "<config><devices></devices></config>", "<config><devices><entry></entry></devices></config>",
					"<config><devices><entry><vsys></vsys></entry></devices></config>", "<config><devices><entry><vsys><entry></entry></vsys></entry></devices></config>", "<x/>", "garbage")
			case "NSX":
				raws = append(raws, "{}", "null", `{"policies":null}`, `{"policies":[]}`, `{"policies":[{}]}`, `{"groups":[{}],"services":[{}]}`, "garbage")
			default:
				raws = append(raws, "garbage\n", " \n", "[APPEND]\n")
			}
			for _, r := range raws {
				s, m := run(c.model, c.dev, c.spoc, r)
				runs++
				record(s, m, c, c.dev, c.spoc, r)
				// the same minimal text as Netspoc code, the original code as raw / as device
				if r != c.spoc {
					s, m = run(c.model, c.dev, r, c.spoc)
					runs++
					record(s, m, c, c.dev, r, c.spoc)
					s, m = run(c.model, r, c.spoc, "")
					runs++
					record(s, m, c, r, c.spoc, "")
				}
			}
		}
	}
	// info files: garbage and truncated JSON
	if *only == "" {
		tmp, _ := os.MkdirTemp("", "fuzzinfo")
		defer os.RemoveAll(tmp)
		for _, content := range []string{"", "NONE", "{", "[]", "null", `{"model":`, `{"model":"ASA","ip_list":[null]}`, `{"model":17}`, "\x00\x01"} {
			os.WriteFile(filepath.Join(tmp, "router.info"), []byte(content), 0644)
			site, msg := runInfo(filepath.Join(tmp, "router"))
			runs++
			record(site, msg, testCase{model: "info-file"}, content, "", "")
		}
	}
	var list []*finding
	for _, f := range found {
		list = append(list, f)
	}
	sort.Slice(list, func(i, j int) bool { return list[i].Site < list[j].Site })
	res := map[string]any{"cases": ncases, "runs": runs, "corpus_runs": corpusRuns, "panic_sites": len(list), "findings": list}
	data, _ := json.MarshalIndent(res, "", " ")
	if *out != "" {
		os.WriteFile(*out, data, 0644)
	}
	os.Stdout.WriteString(fmt.Sprintf("cases=%d runs=%d panic_sites=%d\n", ncases, runs, len(list)))
	for _, f := range list {
		os.Stdout.WriteString(fmt.Sprintf("PANIC %s [%s] x%d: %s\n", f.Site, f.Model, f.Count, f.Panic))
	}
}
