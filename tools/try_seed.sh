#!/bin/bash
# usage: try_seed.sh <patch.diff> <PROP>   -- run PROP's check on a scratch copy of /repo with the patch applied
S=/tmp/try_seed.$$
rm -rf $S; mkdir -p $S; rsync -a --exclude .git ${TRY_BASE:-/repo}/ $S/
(cd $S && patch -s -p1 < $1) || { echo "patch does not apply"; rm -rf $S; exit 2; }
GOVC_REPO=$S timeout 900 /verif/bin/govc check --property $2 2>&1 | grep -E "^(VIOLATION|FAILED|KNOWN|property)" | cut -c1-220
rm -rf $S
