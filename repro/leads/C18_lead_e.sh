#!/bin/sh
# Lead (e): further findings in the merge code (all on unchanged code, all
# rc=0 without error or warning).
#
# E1 (ASA/IOS, cisco/config.go mergeSubCmds): a raw subcommand appended to a
#    Netspoc command keeps subCmdOf -> raw toplevel command, which is not in
#    the lookup any more and never gets the device name.  When that
#    subcommand must be added INCREMENTALLY, the parent is printed with the
#    Netspoc name instead of the name on device:
#        group-policy VPN-group attributes          <- device has VPN-group-DRC-0
#        vpn-filter value raw-filter-DRC-0
#    (same root cause as B2 of lead_b.sh).  Fix: lead_e.diff (bs.subCmdOf = a).
#
# E2 (ASA, cisco/config.go mergeASAACLs): the special case "move trailing
#    'deny ip any6 any6' behind the Netspoc lines" is meant for the IPv4/IPv6
#    merge but is also applied to raw files.  A raw (non APPEND) ACL whose
#    last line is "deny ip any6 any6" gets that line moved to the very end:
#    raw line is reordered behind Netspoc lines, the Netspoc
#    "permit ip any6 host ..." becomes effective although raw denied it.
#    Fix: lead_e2.diff (apply special case only if !ab.b.isRaw).
#
# E3 (IOS, cisco/parse.go postprocessACLParts): address normalisation uses
#    ASA netmask semantics for IOS wildcard masks.  IOS raw line
#        permit tcp 10.0.6.0 0.0.0.255 10.0.1.11 0.0.0.0 eq 80   (= host 10.0.1.11)
#    is sent as  "permit tcp 10.0.6.0 0.0.0.255 any4 eq 80"       (any4 is no IOS keyword)
#        deny ip 0.0.0.0 255.255.255.255 10.0.1.12 0.0.0.0        (= any -> host)
#    is sent as  "deny ip host 0.0.0.0 any4".
#    Fix: lead_e3.diff (wildcard flag for IOS).
#
# E4 (PAN-OS, panos/config.go MergeSpoc): Addresses, AddressGroups, Services
#    are appended from raw/IPv6, ServiceGroups are forgotten.  A raw
#    <service-group> (and the services only it references) is dropped; the raw
#    rule referencing it is transferred with a dangling name.
#    Fix: lead_e.diff (one line).
#
# E5 (PAN-OS): an <address> in raw with the name of a Netspoc address but a
#    different value silently REPLACES the Netspoc definition (objects are
#    looked up by name, last one wins), no "name clash" message: Netspoc rule
#    r1 (source H1 = 10.1.1.10/32) is transferred with H1 = 10.9.9.9/32.
#    No small patch proposed (identical duplicates from IPv4+IPv6 are
#    intentionally tolerated, see pan-os.t "Merge IPv4 and IPv6").
#
# All four diffs: test suite result identical to unpatched code.

DRC=${DRC:-/tmp/inv1-scratch/drc}
T=$(mktemp -d); cd "$T" || exit 1

echo "=== E1: ASA, incremental add of raw subcommand uses wrong group-policy name"
echo '{"model":"ASA","name_list":["router"],"ip_list":["10.1.13.33"]}' > router.info
cat > router <<'EOF'
ip local pool pool 10.1.219.192-10.1.219.255 mask 0.0.0.63
group-policy VPN-group internal
group-policy VPN-group attributes
 address-pools value pool
tunnel-group 1.1.1.1 type ipsec-l2l
tunnel-group 1.1.1.1 general-attributes
 default-group-policy VPN-group
EOF
cat > router.raw <<'EOF'
access-list raw-filter extended permit ip host 10.1.2.2 host 10.1.0.2
group-policy raw-group internal
group-policy raw-group attributes
 vpn-filter value raw-filter
tunnel-group 1.1.1.1 type ipsec-l2l
tunnel-group 1.1.1.1 general-attributes
 default-group-policy raw-group
EOF
cat > dev <<'EOF'
tunnel-group 1.1.1.1 type ipsec-l2l
group-policy VPN-group-DRC-0 internal
ip local pool pool-DRC-0 10.1.219.192-10.1.219.255 mask 0.0.0.63
group-policy VPN-group-DRC-0 attributes
 address-pools value pool-DRC-0
tunnel-group 1.1.1.1 general-attributes
 default-group-policy VPN-group-DRC-0
EOF
$DRC -q dev router; echo "rc=$?"

echo "=== E2: ASA, raw prepend line 'deny ip any6 any6' is moved behind the Netspoc lines"
cat > dev <<'EOF'
interface Ethernet0/1
 nameif inside
EOF
cat > router <<'EOF'
access-list inside_in extended permit ip any6 host 1000::abcd:1:1
access-list inside_in extended deny ip any4 any4
access-group inside_in in interface inside
EOF
cat > router.raw <<'EOF'
access-list inside_in extended permit tcp any6 host 1000::abcd:2:2 eq 80
access-list inside_in extended deny ip any6 any6
access-group inside_in in interface inside
EOF
$DRC -q dev router; echo "rc=$?"

echo "=== E3: IOS, wildcard masks 0.0.0.0 / 255.255.255.255 in raw are inverted"
echo '{"model":"IOS","name_list":["router"],"ip_list":["10.1.13.33"]}' > router.info
cat > dev <<'EOF'
interface Ethernet1
 ip address 10.0.6.1 255.255.255.0
EOF
cat > router <<'EOF'
ip access-list extended Ethernet1_in
 deny ip any any
interface Ethernet1
 ip address 10.0.6.1 255.255.255.0
 ip access-group Ethernet1_in in
EOF
cat > router.raw <<'EOF'
ip access-list extended Ethernet1x
 permit tcp 10.0.6.0 0.0.0.255 10.0.1.11 0.0.0.0 eq 80
 deny ip 0.0.0.0 255.255.255.255 10.0.1.12 0.0.0.0
interface Ethernet1
 ip access-group Ethernet1x in
EOF
$DRC -q dev router; echo "rc=$?"

show() { python3 -c "import sys,urllib.parse,re
for l in urllib.parse.unquote_plus(sys.stdin.read()).splitlines():
    m = re.search(r'xpath=\S*?(/vsys/[^&]*)&element=(.{0,45})', l)
    print('  ' + (m.group(1)+'  '+m.group(2) if m else l))"; }
rule() { cat <<EOF
<rulebase><security><rules><entry name="$1"><action>allow</action><from><member>z1</member></from><to><member>z2</member></to><source><member>$2</member></source><destination><member>any</member></destination><service><member>$3</member></service><application><member>any</member></application><rule-type>interzone</rule-type></entry></rules></security></rulebase>
EOF
}
P='<config><devices><entry name="localhost.localdomain"><vsys><entry name="vsys1">'
Q='</entry></vsys></entry></devices></config>'
echo '{"model":"PAN-OS","name_list":["router"],"ip_list":["10.1.13.33"]}' > router.info
echo "$P$Q" > dev

echo "=== E4: PAN-OS, <service-group> sg1 (and service 'tcp 80') of raw are dropped"
echo "$P$(rule r1 any any)$Q" > router
echo "$P$(rule rawA any sg1)<service-group><entry name=\"sg1\"><members><member>tcp 80</member></members></entry></service-group><service><entry name=\"tcp 80\"><protocol><tcp><port>80</port></tcp></protocol></entry></service>$Q" > router.raw
$DRC -q dev router > out; rc=$?; show < out; echo "rc=$rc"

echo "=== E5: PAN-OS, raw address H1 silently overrides Netspoc address H1 (10.1.1.10/32)"
echo "$P$(rule r1 H1 any)<address><entry name=\"H1\"><ip-netmask>10.1.1.10/32</ip-netmask></entry></address>$Q" > router
echo "$P$(rule rawA H1 any)<address><entry name=\"H1\"><ip-netmask>10.9.9.9/32</ip-netmask></entry></address>$Q" > router.raw
$DRC -q dev router > out; rc=$?; show < out; echo "rc=$rc"
rm -rf "$T"
