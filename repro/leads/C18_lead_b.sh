#!/bin/sh
# Lead (b), IOS: same "ip access-list extended NAME" occurs several times in
# the raw file.  This is explicitly supported ("Allow multiple occurences of
# same ACL in raw" in mergeIOSACLs) and the natural way to write
#     ip access-list extended X  /  <prepend lines>
#     [APPEND]
#     ip access-list extended X  /  <append lines>
#
# VERDICT: CONFIRMED DEFECT (unchanged code).  Two cooperating bugs:
#
# B1  go/pkg/cisco/parse.go postprocessParsed():
#        for _, l := range lookup["ip access-list extended"] {
#            for _, c := range l[0].sub { postprocessIOSACL(c) }
#     only the FIRST occurrence (l[0]) is normalised.  Lines of the 2nd, 3rd..
#     occurrence keep a leading sequence number ("$SEQ" in .parsed, "10 " in
#     the printed text), named ports ("eq ntp"), and object-group refs are
#     not recorded.
# B2  go/pkg/cisco/config.go mergeIOSACLs(): the merged line list is stored in
#     b0 (first raw occurrence) but c.subCmdOf of every line still points to
#     its ORIGINAL toplevel command: the Netspoc ACL command for Netspoc
#     lines, the 2nd raw occurrence for its lines.  Those commands are no
#     longer in the lookup, never get the device name, and
#     addCmd()/diffIOSACLs print "ip access-list extended <subCmdOf.name>".
#     So every INCREMENTAL change of a merged ACL is sent to the wrong ACL
#     name.  (B2 does not even need a repeated header: see case 3.)
#
# Observed (no error, no warning, rc=0 in all cases):
# case 1, device empty, ACL created from scratch:
#     ip access-list extended Ethernet1_in-DRC-0
#     permit udp 10.0.6.0 0.0.0.255 host 224.0.1.1 eq 123     <- 1st occurrence: normalised
#     permit udp 10.0.6.0 0.0.0.255 host 10.0.1.11 eq 123
#     10 deny udp any host 224.0.1.1 eq ntp                    <- 2nd occurrence: raw text incl. "10"
#     deny ip any any
#   The APPEND line is sent with sequence number 10.  On IOS that line is
#   inserted at position 10 (or rejected as duplicate sequence number, the
#   first line auto-numbered 10), i.e. NOT behind the last Netspoc permit.
# case 2, device already holds exactly the merged ACL (should be "no change"):
#     ip access-list resequence Ethernet1_in-DRC-0 10000 10000
#     ip access-list extended Ethernet1_in                     <- wrong ACL (B2), not bound anywhere
#     30001 10 deny udp any host 224.0.1.1 eq ntp              <- garbage "30001 10 deny" (B1)
#     exit
#     ip access-list extended Ethernet1_in-DRC-0
#     no 30000                                                 <- and the correct line is deleted
#   -> the raw APPEND line gets REMOVED from the bound ACL; never converges.
# case 3, single header in raw (no duplicate), device lacks one NETSPOC line:
#     ip access-list extended Ethernet1_in                     <- wrong ACL (B2)
#     10001 permit udp 10.0.6.0 0.0.0.255 host 10.0.1.11 eq 123
#   -> IOS silently creates a new unbound ACL "Ethernet1_in"; the bound ACL
#      Ethernet1_in-DRC-0 never gets the Netspoc permit line.
#
# Proposed fix: /tmp/inv1-scratch/lead_b.diff
#   - postprocessParsed: iterate over all occurrences, not only l[0]
#   - mergeIOSACLs: set c.subCmdOf = b0 for all lines of the merged ACL
# With it: case 1 prints "deny udp any host 224.0.1.1 eq 123" (no "10 "),
# case 2 prints nothing (unchanged), case 3 uses Ethernet1_in-DRC-0.
# Test suite result identical to unpatched code (only the root/permission
# failures).

DRC=${DRC:-/tmp/inv1-scratch/drc}
T=$(mktemp -d); cd "$T" || exit 1
echo '{"model":"IOS","name_list":["router"],"ip_list":["10.1.13.33"]}' > router.info
cat > router <<'EOF'
ip access-list extended Ethernet1_in
 permit udp 10.0.6.0 0.0.0.255 host 10.0.1.11 eq 123
 deny ip any any
interface Ethernet1
 ip address 10.0.6.1 255.255.255.0
 ip access-group Ethernet1_in in
EOF
cat > router.raw <<'EOF'
ip access-list extended Ethernet1x
 10 permit udp 10.0.6.0 0.0.0.255 host 224.0.1.1 eq ntp
[APPEND]
ip access-list extended Ethernet1x
 10 deny udp any host 224.0.1.1 eq ntp
interface Ethernet1
 ip access-group Ethernet1x in
EOF

echo "=== case 1: empty device, raw repeats ACL header (2nd occurrence not normalised)"
cat > dev1 <<'EOF'
interface Ethernet1
 ip address 10.0.6.1 255.255.255.0
EOF
$DRC -q dev1 router; echo "rc=$?"

echo "=== case 2: device already has the merged ACL; expected: no output"
cat > dev2 <<'EOF'
ip access-list extended Ethernet1_in-DRC-0
 permit udp 10.0.6.0 0.0.0.255 host 224.0.1.1 eq ntp
 permit udp 10.0.6.0 0.0.0.255 host 10.0.1.11 eq ntp
 deny udp any host 224.0.1.1 eq ntp
 deny ip any any
interface Ethernet1
 ip address 10.0.6.1 255.255.255.0
 ip access-group Ethernet1_in-DRC-0 in
EOF
$DRC -q dev2 router; echo "rc=$?"

echo "=== case 3: raw with a SINGLE header; device lacks the Netspoc permit line"
cat > router.raw <<'EOF'
ip access-list extended Ethernet1x
 permit udp 10.0.6.0 0.0.0.255 host 224.0.1.1 eq ntp
[APPEND]
 deny udp any host 224.0.1.1 eq ntp
interface Ethernet1
 ip access-group Ethernet1x in
EOF
grep -v "10.0.1.11" dev2 > dev3
$DRC -q dev3 router; echo "rc=$?"
rm -rf "$T"
