#!/bin/bash
# Defect 1 (property C06): Linux device WITHOUT the managed-by marker in
# /etc/issue is changed anyway.
#
# 'checkbanner = NetSPoC' is configured. The simulated Linux device answers
# "grep 'NetSPoC' /etc/issue" with NO output (marker absent).
# linux.State.checkBanner records errUnmanaged, but
# linux.State.GetErrUnmanaged() is hard wired to 'return nil'
# (go/pkg/linux/device.go, last line), so device.approve() never sees it.
#
# Expected by C06: diagnostic "Missing banner at NetSPoC managed device",
#   non-zero exit status, no changing command sent
#   (this is what ASA/IOS do, see asa_simul.t "Missing NetSPoC banner").
# Observed: exit status 0, no diagnostic at all (not even a warning in compare
#   mode), and 'ip route add', the new iptables script and 'mv -f' are sent
#   to the device; both via drc and via do-approve.
#
# Variant GREPERR=1: the device has no /etc/issue at all; grep answers
#   "grep: /etc/issue: No such file or directory". checkBanner only tests
#   len(output) == 0, so this error message counts as "marker present".
#   In the unchanged code the outcome is the same as above (masked by the
#   'return nil'); it stays accepted if only GetErrUnmanaged is repaired,
#   therefore fix_1.diff also matches the regexp against the output.
#
# Usage: [GREPERR=1] DRC=/path/to/drc DOAPPROVE=/path/to/do-approve ./defect_1.sh
set -u
REPO=${REPO:-/tmp/wt/C06b}
export GOFLAGS=-mod=mod GOPROXY=off GOSUMDB=off GOTOOLCHAIN=local
T=$(mktemp -d /tmp/C06b-scratch/d1.XXXXXX)
if [ -z "${DRC:-}" ]; then
    DRC=$T/drc; (cd $REPO/go && go build -o $DRC ./cmd/drc) || exit 2
fi
if [ -z "${DOAPPROVE:-}" ]; then
    DOAPPROVE=$T/do-approve
    (cd $REPO/go && go build -o $DOAPPROVE ./cmd/do-approve) || exit 2
fi
cd $T
mkdir -p lock status history policies/p1/code
ln -s p1 policies/current
CODE=policies/p1/code
cat > .netspoc-approve <<EOF
basedir = $T
checkbanner = NetSPoC
systemuser = admin
timeout = 2
EOF
echo '* admin secret' > credentials
export HOME=$T

# Device: hostname is right, but /etc/issue has no NetSPoC marker:
# grep prints nothing.
cat > scenario <<'EOF'

root@linux-router:~#
# echo $?
0
# uname -r
3.2.89-2.custom
# uname -m
i686
# hostname -s
router
# which iptables-restore
/sbin/iptables-restore
# ip route show
0.0.0.0/0 via 10.1.1.1
# iptables-save
*filter
:INPUT DROP
-A INPUT -j ACCEPT -s 10.1.11.111 -d 10.10.1.2 -p tcp --dport 23
COMMIT
EOF
cat > $CODE/router <<'EOF'
ip route add 0.0.0.0/0 via 10.1.1.99

*filter
:INPUT DROP
-A INPUT -j ACCEPT -s 10.1.11.111 -d 10.10.1.2 -p tcp --dport 22
EOF
cat > $CODE/router.info <<'EOF'
{ "model": "Linux", "name_list": ["router"], "ip_list": ["10.1.13.33"] }
EOF
if [ -n "${GREPERR:-}" ]; then
    printf "# grep 'NetSPoC' /etc/issue\ngrep: /etc/issue: No such file or directory\n" >> scenario
fi
export SIMULATE_ROUTER="$REPO/go/testdata/simulate-cisco.pl router $T/scenario"

echo "=== drc (approve) ==="
$DRC -q -L $T/log $CODE/router
st=$?
echo "exit status: $st"
echo "--- login log (grep for marker returns nothing):"
cat log/router.login
echo
echo "--- commands sent to the unmanaged device (log/router.change):"
cat log/router.change
echo
echo "=== do-approve approve router ==="
$DOAPPROVE approve router
st2=$?
echo "exit status: $st2"
echo "--- policies/p1/log/router.change:"
cat policies/p1/log/router.change
echo
echo "--- status file:"; cat status/router; echo

if [ $st -eq 0 ] && grep -q 'ip route add' log/router.change; then
    echo "DEFECT CONFIRMED: changes sent to Linux device without banner, status 0"
else
    echo "not reproduced"
fi
