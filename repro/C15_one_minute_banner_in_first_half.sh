#!/bin/bash
# C15: "the one-minute warning causes the reload to be re-armed".
# A route replacement is sent as one joined command "no ip route ...\nip route ...".
# If the 'SHUTDOWN in 0:01:00' banner arrives inside the echo of the FIRST half,
# ios.cmd forgets it (needReload is overwritten by the check of the second half)
# and no 'do reload in 2' is sent.
# Exit 0 = defect reproduced (no re-arm), 1 = not reproduced (re-armed).
export GOFLAGS=-mod=mod GOPROXY=off GOSUMDB=off GOTOOLCHAIN=local
REPO=${GOVC_REPO:-/repo}
T=$(mktemp -d); trap 'rm -rf $T' EXIT
(cd $REPO/go && go build -o $T/drc ./cmd/drc) || exit 2
mkdir -p $T/home/code $T/home/lock $T/log
cat > $T/home/.netspoc-approve <<EOC
basedir = $T/home
checkbanner = NetSPoC
systemuser = admin
timeout = 1
EOC
echo "* admin secret" > $T/home/credentials
echo '{"model":"IOS","name_list":["router"],"ip_list":["10.1.13.33"]}' > $T/home/code/router.info
echo 'ip route 10.0.0.0 255.0.0.0 10.11.22.33' > $T/home/code/router
cat > $T/scenario <<'EOC'
Enter Password:<!>
banner motd  managed by NetSPoC
router>
# sh ver
Cisco IOS Software, C2900 Software (C2900-UNIVERSALK9-M), Version 15.1(4)M4,
# configure terminal
Enter configuration commands, one per line.  End with CNTL/Z.
# reload in 2

System configuration has been modified. Save? [yes/no]: <!>
Reload reason: Reload Command
Proceed with reload? [confirm]<!>
# reload cancel


***
*** --- SHUTDOWN ABORTED ---
***
# write memory
Building configuration...
  Compressed configuration from 106098 bytes to 30504 bytes[OK]
# sh run
ip route 10.0.0.0 255.0.0.0 10.1.2.3
# \BANNER1/



***
*** --- SHUTDOWN in 0:01:00 ---
***
# no ip route 10.0.0.0 25\BANNER1/5.0.0.0 10.1.2.3
EOC
cd $T/home
OUT=$(HOME=$T/home SIMULATE_ROUTER="$REPO/go/testdata/simulate-cisco.pl router $T/scenario" $T/drc -q -L $T/log code/router 2>&1); ST=$?
echo "exit status $ST"; echo "$OUT" | head -5
echo "--- change log:"; sed -n '/reload in 2/,$p' $T/log/router.change | head -40
if [ $ST -eq 0 ] && grep -q "SHUTDOWN in 0:01:00" $T/log/router.change && ! grep -q "do reload in 2" $T/log/router.change; then
  echo "REPRODUCED: one-minute warning seen in first half of a joined command, reload not re-armed"; exit 0; fi
exit 1
