#!/bin/bash
# C03 defect 4: generated unique rule name collides with other new rule
#
# router.raw holds rules "foo" and "foo-1".  The device has an older version of
# "foo" (action drop), so both raw rules (allow, deny) are new.
# diff.go, genUniqRuleNames() renames new rule "foo" to "foo-1", because "foo"
# is still in use on the device, but only checks names on the device, not the
# names of the other new rules.  Two "action=set .../rules/entry[@name='foo-1']"
# commands with different content are emitted and "foo" is deleted.
# VIOLATION of C03: both sets go to the same node, the device ends with ONE
# merged rule (action of the second, union of the addresses) instead of two
# rules; second compare reports changes again.
# (genUniqGroupNames has the same flaw for address-groups "g"/"g-1".)
#
# Usage: [DRC=/path/to/drc] ./defect_4.sh
# Without $DRC (or $BIN) the binary is built from /tmp/wt/C03b/go.
set -u
export GOFLAGS=-mod=mod GOPROXY=off GOSUMDB=off GOTOOLCHAIN=local
T=$(mktemp -d /tmp/C03b-scratch/run.XXXXXX)
DRC=${DRC:-${BIN:-}}
if [ -z "$DRC" ]; then
  (cd /tmp/wt/C03b/go && go build -o $T/drc ./cmd/drc) || exit 1
  DRC=$T/drc
fi
cd $T
mkdir -p code log lock
cat > pansim.py <<'PANSIM_EOF'
#!/usr/bin/env python3
# Minimal PAN-OS XML-API simulator for auditing Netspoc-Approve.
# usage: pansim.py DEVICES.xml PORTFILE REQLOG
# DEVICES.xml holds <devices>...</devices> (candidate configuration).
# Semantics:  set = merge element into node at xpath (creates path, members
#             are added, never removed);  edit = replace node;  delete = remove
#             node (error if missing or if an object is still referenced);
#             move = reorder (error if dst missing).
# Every received request line is appended to REQLOG, the candidate config is
# written to DEVICES.xml after every change.
import sys, re, copy
import xml.etree.ElementTree as ET
from http.server import BaseHTTPRequestHandler, HTTPServer
from urllib.parse import urlsplit, parse_qs

cfgfile, portfile, reqlog = sys.argv[1:4]
devices = ET.parse(cfgfile).getroot()
assert devices.tag == 'devices'

def log(s):
    with open(reqlog, 'a') as f:
        f.write(s + '\n')

def save():
    ET.ElementTree(devices).write(cfgfile)

def segs(xpath):
    res = []
    for s in xpath.strip('/').split('/'):
        m = re.match(r"^([^\[]+)(?:\[(@name|text\(\))='(.*)'\])?$", s)
        res.append((m.group(1), m.group(2), m.group(3)))
    return res

def find(node, seg):
    tag, kind, val = seg
    for k in node:
        if k.tag != tag: continue
        if kind == '@name' and k.get('name') != val: continue
        if kind == 'text()' and (k.text or '').strip() != val: continue
        return k
    return None

def merge(dst, src):
    if len(src) == 0:
        dst.text = src.text
        return
    for c in src:
        if c.tag == 'member':
            if find(dst, ('member', 'text()', (c.text or '').strip())) is None:
                dst.append(c)
            continue
        k = find(dst, (c.tag, '@name', c.get('name'))) if c.tag == 'entry' \
            else find(dst, (c.tag, None, None))
        if k is None: dst.append(c)
        else: merge(k, c)

def referenced(vsys, kind, name):
    addr = kind in ('address', 'address-group')
    for r in vsys.findall('rulebase/security/rules/entry'):
        for l in (('source', 'destination') if addr else ('service',)):
            for m in r.findall(l + '/member'):
                if (m.text or '').strip() == name:
                    return 'rule ' + r.get('name')
    p, q = ('address-group', 'static') if addr else ('service-group', 'members')
    for g in vsys.findall(p + '/entry'):
        for m in g.findall(q + '/member'):
            if (m.text or '').strip() == name:
                return p + ' ' + g.get('name')
    return None

def walk(sg):
    assert sg[0][0] == 'config' and sg[1][0] == 'devices'
    path = [devices]
    for s in sg[2:]:
        k = find(path[-1], s)
        if k is None: return None
        path.append(k)
    return path

def config_cmd(q):
    action = q['action'][0]
    xpath = q['xpath'][0]
    sg = segs(xpath)
    if action == 'get':
        return 'ok', ET.tostring(devices, encoding='unicode')
    if action == 'set':
        cur = devices
        for s in sg[2:]:
            k = find(cur, s)
            if k is None:
                k = ET.SubElement(cur, s[0])
                if s[1] == '@name': k.set('name', s[2])
            cur = k
        merge(cur, ET.fromstring('<x>' + q['element'][0] + '</x>'))
        return 'ok', ''
    path = walk(sg)
    if path is None:
        return 'err', 'No such node: ' + xpath
    node, parent = path[-1], path[-2]
    if action == 'edit':
        el = ET.fromstring(q['element'][0])
        if el.tag != node.tag:
            return 'err', 'edit: element does not match xpath'
        parent[list(parent).index(node)] = el
        return 'ok', ''
    if action == 'delete':
        tags = [s[0] for s in sg]
        if len(tags) >= 2 and tags[-1] == 'entry' and tags[-2] in (
                'address', 'address-group', 'service', 'service-group'):
            vsys = path[-3]
            r = referenced(vsys, tags[-2], sg[-1][2])
            if r:
                return 'err', '%s %s cannot be deleted because of references from %s' % (tags[-2], sg[-1][2], r)
        parent.remove(node)
        return 'ok', ''
    if action == 'move':
        dst = find(parent, ('entry', '@name', q.get('dst', [''])[0]))
        if dst is None or q.get('where', [''])[0] != 'before':
            return 'err', 'move: bad destination %r' % q.get('dst', [''])[0]
        parent.remove(node)
        parent.insert(list(parent).index(dst), node)
        return 'ok', ''
    return 'err', 'unknown action'

class H(BaseHTTPRequestHandler):
    def log_message(self, fmt, *args):
        log('HTTPD: ' + fmt % args)
    def do_GET(self):
        q = parse_qs(urlsplit(self.path).query, keep_blank_values=True)
        t = q.get('type', [''])[0]
        body = ''
        if t == 'keygen':
            body = "<response status='success'><result><key>KEY</key></result></response>"
        elif t == 'op':
            cmd = q['cmd'][0]
            if 'high-availability' in cmd:
                body = "<response status='success'><result><enabled>no</enabled></result></response>"
            else:
                body = "<response status='success'><result><job><result>OK</result></job></result></response>"
        elif t == 'commit':
            body = '<response status="success" code="19"><result><job>1</job></result></response>'
        elif t == 'config':
            st, msg = config_cmd(q)
            if st == 'ok' and q['action'][0] == 'get':
                body = '<response status="success"><result>' + msg + '</result></response>'
            elif st == 'ok':
                save()
                body = '<response status="success" code="20"></response>'
            else:
                body = '<response status="error"><msg>' + msg.replace('<', '&lt;') + '</msg></response>'
        self.send_response(200)
        if t == 'config' and st != 'ok':
            log('RESULT: err ' + msg)
        self.end_headers()
        self.wfile.write(body.encode())

srv = HTTPServer(('127.0.0.1', 0), H)
with open(portfile, 'w') as f:
    f.write(str(srv.server_address[1]))
srv.serve_forever()

PANSIM_EOF
cat > .netspoc-approve <<EOF
basedir = $T
systemuser = admin
timeout = 5
EOF
echo '* admin secret' > credentials
export HOME=$T
cat > code/router.info <<'EOF'
{"model":"PAN-OS","name_list":["router"],"ip_list":["10.1.13.33"]}
EOF

# Candidate configuration of device.
cat > devices.xml <<'EOF'
<devices><entry name="localhost.localdomain">
<deviceconfig><system><hostname>router</hostname></system></deviceconfig>
<vsys><entry name="vsys1"><display-name>managed-by-netspoc</display-name>
<rulebase><security><rules>
<entry name="foo"><action>drop</action><from><member>z1</member></from><to><member>z2</member></to><source><member>any</member></source><destination><member>IP_10.1.1.1</member></destination><service><member>any</member></service><application><member>any</member></application><rule-type>interzone</rule-type></entry>
</rules></security></rulebase>
<address>
<entry name="IP_10.1.1.1"><ip-netmask>10.1.1.1/32</ip-netmask></entry>
</address>
<address-group>

</address-group>
<service>

</service>
<service-group>

</service-group>
</entry></vsys></entry></devices>
EOF
# Code from Netspoc.
cat > code/router <<'EOF'
<config><devices><entry name="localhost.localdomain"><vsys><entry name="vsys1">
<rulebase><security><rules>

</rules></security></rulebase>
<address>

</address>
<address-group>

</address-group>
<service>

</service>
<service-group>

</service-group>
</entry></vsys></entry></devices></config>
EOF
cat > code/router.raw <<'EOF'
<config><devices><entry name="localhost.localdomain"><vsys><entry name="vsys1">
<rulebase><security><rules>
<entry name="foo"><action>allow</action><from><member>z1</member></from><to><member>z2</member></to><source><member>any</member></source><destination><member>IP_10.1.1.1</member></destination><service><member>any</member></service><application><member>any</member></application><rule-type>interzone</rule-type></entry>
<entry name="foo-1"><action>deny</action><from><member>z1</member></from><to><member>z2</member></to><source><member>any</member></source><destination><member>IP_10.1.1.2</member></destination><service><member>any</member></service><application><member>any</member></application><rule-type>interzone</rule-type></entry>
</rules></security></rulebase>
<address>
<entry name="IP_10.1.1.1"><ip-netmask>10.1.1.1/32</ip-netmask></entry>
<entry name="IP_10.1.1.2"><ip-netmask>10.1.1.2/32</ip-netmask></entry>
</address>
<address-group>

</address-group>
<service>

</service>
<service-group>

</service-group>
</entry></vsys></entry></devices></config>
EOF

start_sim() {
  rm -f port
  python3 pansim.py devices.xml port requests.log &
  SIM=$!
  for i in $(seq 100); do [ -s port ] && break; sleep 0.1; done
  export SIMULATE_ROUTER=http://127.0.0.1:$(cat port)
}
trap 'kill $SIM 2>/dev/null' EXIT
start_sim

echo "### 1. compare device with Netspoc (drc -C): commands that would be sent"
$DRC -C -q -L log code/router; echo "exit status $?"
cat log/router.cmp 2>/dev/null
echo
rm -f log/router.cmp
echo "### 2. approve (drc): commands are applied to simulated candidate config"
$DRC -q -L log code/router; echo "exit status $?"
echo
echo "### requests seen by simulated device while approving (config changes only)"
grep -E 'action=(set|edit|delete|move)|code 400|RESULT: err' requests.log | sed -e 's/key=KEY&//' | cut -c1-400
echo
echo "### 3. second compare against changed candidate config"
rm -f log/router.cmp
$DRC -C -L log code/router; echo "exit status $?"
cat log/router.cmp 2>/dev/null
echo
echo "### candidate configuration of device now"
python3 - <<'EOF'
import xml.etree.ElementTree as ET
d = ET.parse('devices.xml').getroot()
ml = lambda n, p: [m.text for m in n.findall(p + '/member')]
for v in d.findall('entry/vsys/entry'):
    print('vsys', v.get('name'))
    for r in v.findall('rulebase/security/rules/entry'):
        print('  rule %-10s %-5s src=%s dst=%s srv=%s' % (repr(r.get('name')), r.findtext('action'),
              ml(r, 'source'), ml(r, 'destination'), ml(r, 'service')))
    for a in v.findall('address/entry'):
        print('  address', a.get('name'), a.findtext('ip-netmask'))
    for g in v.findall('address-group/entry'):
        print('  address-group', g.get('name'), ml(g, 'static'))
    for a in v.findall('service/entry'):
        print('  service', repr(a.get('name')), a.findtext('protocol/tcp/port'))
    for g in v.findall('service-group/entry'):
        print('  service-group', g.get('name'), ml(g, 'members'))
EOF

