package main

// Parser for contract expressions (Gobra-like surface syntax).

import (
	"fmt"
	"strconv"
	"strings"
	"unicode"
)

type Expr interface{}

type (
	EInt    struct{ V int64 }
	EStr    struct{ V string }
	EBool   struct{ V bool }
	ENil    struct{}
	EIdent  struct{ Name string }
	EField  struct {
		X    Expr
		Name string
	}
	EIndex struct{ X, I Expr }
	ESlice struct{ X, Lo, Hi Expr }
	ECall  struct {
		Fn   string
		Args []Expr
	}
	EUnary struct {
		Op string
		X  Expr
	}
	EBinary struct {
		Op   string
		X, Y Expr
	}
	EQuant struct {
		Forall bool
		Vars   []QVar
		Body   Expr
		Trig   []Expr
		TrigAlt [][]Expr // further alternative patterns: { a } { b }
	}
	EOld struct{ X Expr }
)

type QVar struct {
	Name string
	Type string
}

type tok struct {
	kind string // id, int, str, op, eof
	s    string
}

type exprParser struct {
	toks []tok
	pos  int
	src  string
}

func lexExpr(s string) ([]tok, error) {
	var toks []tok
	i := 0
	for i < len(s) {
		c := s[i]
		switch {
		case c == ' ' || c == '\t' || c == '\n':
			i++
		case c == '"':
			j := i + 1
			for j < len(s) && s[j] != '"' {
				if s[j] == '\\' {
					j++
				}
				j++
			}
			if j >= len(s) {
				return nil, fmt.Errorf("unterminated string in %q", s)
			}
			v, err := strconv.Unquote(s[i : j+1])
			if err != nil {
				return nil, fmt.Errorf("bad string %s: %v", s[i:j+1], err)
			}
			toks = append(toks, tok{"str", v})
			i = j + 1
		case c == '`':
			j := strings.IndexByte(s[i+1:], '`')
			if j < 0 {
				return nil, fmt.Errorf("unterminated raw string in %q", s)
			}
			toks = append(toks, tok{"str", s[i+1 : i+1+j]})
			i = i + j + 2
		case unicode.IsDigit(rune(c)):
			j := i
			for j < len(s) && unicode.IsDigit(rune(s[j])) {
				j++
			}
			toks = append(toks, tok{"int", s[i:j]})
			i = j
		case unicode.IsLetter(rune(c)) || c == '_' || c == '%' && i+1 < len(s) && s[i+1] == 't' || c == '$':
			j := i + 1
			for j < len(s) && (unicode.IsLetter(rune(s[j])) || unicode.IsDigit(rune(s[j])) || s[j] == '_' || s[j] == '$') {
				j++
			}
			toks = append(toks, tok{"id", s[i:j]})
			i = j
		default:
			ops := []string{"<==>", "==>", "&&", "||", "==", "!=", "<=", ">=", "::", "<", ">", "+", "-", "*", "/", "%", "!", "(", ")", "[", "]", ".", ",", ":", "{", "}"}
			found := false
			for _, op := range ops {
				if strings.HasPrefix(s[i:], op) {
					toks = append(toks, tok{"op", op})
					i += len(op)
					found = true
					break
				}
			}
			if !found {
				return nil, fmt.Errorf("bad character %q in %q", c, s)
			}
		}
	}
	toks = append(toks, tok{"eof", ""})
	return toks, nil
}

func parseExpr(s string) (e Expr, err error) {
	toks, err := lexExpr(s)
	if err != nil {
		return nil, err
	}
	p := &exprParser{toks: toks, src: s}
	defer func() {
		if r := recover(); r != nil {
			if pe, ok := r.(parseErr); ok {
				err = fmt.Errorf("%s in %q", string(pe), s)
				return
			}
			panic(r)
		}
	}()
	e = p.parseImplies()
	if p.peek().kind != "eof" {
		p.fail("unexpected token %q", p.peek().s)
	}
	return e, nil
}

type parseErr string

func (p *exprParser) fail(f string, a ...any) { panic(parseErr(fmt.Sprintf(f, a...))) }
func (p *exprParser) peek() tok               { return p.toks[p.pos] }
func (p *exprParser) next() tok               { t := p.toks[p.pos]; p.pos++; return t }
func (p *exprParser) isOp(s string) bool      { t := p.peek(); return t.kind == "op" && t.s == s }
func (p *exprParser) expect(s string) {
	if !p.isOp(s) {
		p.fail("expected %q, got %q", s, p.peek().s)
	}
	p.pos++
}

// implies: right assoc, lowest; then <==>
func (p *exprParser) parseImplies() Expr {
	if t := p.peek(); t.kind == "id" && (t.s == "forall" || t.s == "exists") {
		return p.parseQuant()
	}
	x := p.parseIff()
	if p.isOp("==>") {
		p.pos++
		y := p.parseImplies()
		return EBinary{"==>", x, y}
	}
	return x
}

func (p *exprParser) parseQuant() Expr {
	t := p.next()
	q := EQuant{Forall: t.s == "forall"}
	for {
		var names []string
		for {
			n := p.next()
			if n.kind != "id" {
				p.fail("expected variable name, got %q", n.s)
			}
			names = append(names, n.s)
			if p.isOp(",") {
				p.pos++
				continue
			}
			break
		}
		// type: sequence of tokens up to "::" or ","
		var ty strings.Builder
		for !p.isOp("::") && !p.isOp(",") && p.peek().kind != "eof" {
			ty.WriteString(p.next().s)
		}
		for _, n := range names {
			q.Vars = append(q.Vars, QVar{n, ty.String()})
		}
		if p.isOp(",") {
			p.pos++
			continue
		}
		break
	}
	p.expect("::")
	if p.isOp("{") {
		p.pos++
		for {
			q.Trig = append(q.Trig, p.parseImplies())
			if p.isOp(",") {
				p.pos++
				continue
			}
			break
		}
		p.expect("}")
		for p.isOp("{") {
			p.pos++
			var g []Expr
			for {
				g = append(g, p.parseImplies())
				if p.isOp(",") {
					p.pos++
					continue
				}
				break
			}
			p.expect("}")
			q.TrigAlt = append(q.TrigAlt, g)
		}
	}
	q.Body = p.parseImplies()
	return q
}

func (p *exprParser) parseIff() Expr {
	x := p.parseOr()
	for p.isOp("<==>") {
		p.pos++
		y := p.parseOr()
		x = EBinary{"<==>", x, y}
	}
	return x
}

func (p *exprParser) parseOr() Expr {
	x := p.parseAnd()
	for p.isOp("||") {
		p.pos++
		y := p.parseAnd()
		x = EBinary{"||", x, y}
	}
	return x
}

func (p *exprParser) parseAnd() Expr {
	x := p.parseCmp()
	for p.isOp("&&") {
		p.pos++
		y := p.parseCmp()
		x = EBinary{"&&", x, y}
	}
	return x
}

func (p *exprParser) parseCmp() Expr {
	x := p.parseAdd()
	for {
		t := p.peek()
		if t.kind == "op" && (t.s == "==" || t.s == "!=" || t.s == "<" || t.s == "<=" || t.s == ">" || t.s == ">=") {
			p.pos++
			y := p.parseAdd()
			x = EBinary{t.s, x, y}
			continue
		}
		if t.kind == "id" && t.s == "in" {
			p.pos++
			y := p.parseAdd()
			x = EBinary{"in", x, y}
			continue
		}
		return x
	}
}

func (p *exprParser) parseAdd() Expr {
	x := p.parseMul()
	for p.isOp("+") || p.isOp("-") {
		op := p.next().s
		y := p.parseMul()
		x = EBinary{op, x, y}
	}
	return x
}

func (p *exprParser) parseMul() Expr {
	x := p.parseUnary()
	for p.isOp("*") || p.isOp("/") || p.isOp("%") {
		op := p.next().s
		y := p.parseUnary()
		x = EBinary{op, x, y}
	}
	return x
}

func (p *exprParser) parseUnary() Expr {
	if p.isOp("!") {
		p.pos++
		return EUnary{"!", p.parseUnary()}
	}
	if p.isOp("-") {
		p.pos++
		return EUnary{"-", p.parseUnary()}
	}
	return p.parsePostfix()
}

func (p *exprParser) parsePostfix() Expr {
	x := p.parsePrimary()
	for {
		switch {
		case p.isOp("."):
			p.pos++
			n := p.next()
			if n.kind != "id" {
				p.fail("expected field name after '.'")
			}
			if id, ok := x.(EIdent); ok && p.isOp("(") {
				p.pos++
				var args []Expr
				for !p.isOp(")") {
					args = append(args, p.parseImplies())
					if p.isOp(",") {
						p.pos++
					} else if !p.isOp(")") {
						p.fail("expected ',' or ')' in call")
					}
				}
				p.pos++
				x = ECall{id.Name + "." + n.s, args}
				continue
			}
			x = EField{x, n.s}
		case p.isOp("["):
			p.pos++
			var lo Expr
			if !p.isOp(":") {
				lo = p.parseImplies()
			}
			if p.isOp(":") {
				p.pos++
				var hi Expr
				if !p.isOp("]") {
					hi = p.parseImplies()
				}
				p.expect("]")
				x = ESlice{x, lo, hi}
			} else {
				p.expect("]")
				x = EIndex{x, lo}
			}
		default:
			return x
		}
	}
}

func (p *exprParser) parsePrimary() Expr {
	t := p.next()
	switch t.kind {
	case "int":
		v, _ := strconv.ParseInt(t.s, 10, 64)
		return EInt{v}
	case "str":
		return EStr{t.s}
	case "id":
		switch t.s {
		case "true":
			return EBool{true}
		case "false":
			return EBool{false}
		case "nil":
			return ENil{}
		case "forall", "exists":
			p.pos--
			return p.parseQuant()
		}
		if p.isOp("(") {
			p.pos++
			var args []Expr
			for !p.isOp(")") {
				args = append(args, p.parseImplies())
				if p.isOp(",") {
					p.pos++
				} else if !p.isOp(")") {
					p.fail("expected ',' or ')' in call of %s", t.s)
				}
			}
			p.pos++
			if t.s == "old" {
				if len(args) != 1 {
					p.fail("old takes one argument")
				}
				return EOld{args[0]}
			}
			return ECall{t.s, args}
		}
		return EIdent{t.s}
	case "op":
		if t.s == "(" {
			e := p.parseImplies()
			p.expect(")")
			return e
		}
	}
	p.fail("unexpected token %q", t.s)
	return nil
}

func exprString(e Expr) string {
	switch x := e.(type) {
	case EInt:
		return fmt.Sprint(x.V)
	case EStr:
		return strconv.Quote(x.V)
	case EBool:
		return fmt.Sprint(x.V)
	case ENil:
		return "nil"
	case EIdent:
		return x.Name
	case EField:
		return exprString(x.X) + "." + x.Name
	case EIndex:
		return exprString(x.X) + "[" + exprString(x.I) + "]"
	case ESlice:
		lo, hi := "", ""
		if x.Lo != nil {
			lo = exprString(x.Lo)
		}
		if x.Hi != nil {
			hi = exprString(x.Hi)
		}
		return exprString(x.X) + "[" + lo + ":" + hi + "]"
	case ECall:
		var a []string
		for _, y := range x.Args {
			a = append(a, exprString(y))
		}
		return x.Fn + "(" + strings.Join(a, ", ") + ")"
	case EUnary:
		return x.Op + exprString(x.X)
	case EBinary:
		return "(" + exprString(x.X) + " " + x.Op + " " + exprString(x.Y) + ")"
	case EQuant:
		q := "exists"
		if x.Forall {
			q = "forall"
		}
		var vs []string
		for _, v := range x.Vars {
			vs = append(vs, v.Name+" "+v.Type)
		}
		return q + " " + strings.Join(vs, ", ") + " :: " + exprString(x.Body)
	case EOld:
		return "old(" + exprString(x.X) + ")"
	}
	return "?"
}
