#!/bin/bash
# Runs every claimed check (quick tier by default) and validates manifest + evidence.
TIER=${1:-quick}
cd /verif
python3-vt - <<PY
import json,jsonschema,subprocess,sys,time
m=json.load(open('/verif/MANIFEST.json'))
jsonschema.validate(m, json.load(open('/root/.vp/MANIFEST.schema.json')))
es=json.load(open('/root/.vp/EVIDENCE.schema.json'))
bad=0
for c in m['checks']:
    cmd=c['quick_cmd'] if '$TIER'=='quick' else c.get('thorough_cmd',c['quick_cmd'])
    t=time.time()
    r=subprocess.run(cmd,shell=True,capture_output=True,text=True,cwd='/verif')
    last=[l for l in r.stdout.splitlines() if l.startswith('property')]
    ev=json.load(open(c['evidence_file']))
    try:
        jsonschema.validate(ev, es); evok='evidence-ok'
    except Exception as e:
        evok='EVIDENCE-INVALID '+str(e)[:100]; bad+=1
    cov=ev['coverage']
    if ev['level']=='proof' and cov.get('obligations')!=cov.get('discharged'):
        evok+=' DISCHARGED!=OBLIGATIONS'; bad+=1
    if ev['level']!=c['level_claimed']['category']:
        evok+=' LEVEL-MISMATCH'; bad+=1
    if ev['level']=='other' and not cov.get('explanation'):
        evok+=' NO-EXPLANATION'; bad+=1
    viol='VIOLATION' in r.stdout
    if r.returncode!=0 or viol: bad+=1
    print(c['property_id'], 'exit', r.returncode, 'VIOLATION' if viol else '', evok, '%.0fs'%(time.time()-t), last[-1] if last else r.stdout[-200:])
sys.exit(1 if bad else 0)
PY
