package main

import (
	"go/token"
	"fmt"
	"go/constant"
	"go/types"
	"os"
	"regexp"
	"strings"

	"golang.org/x/tools/go/ssa"
)

var sprintfVerb = regexp.MustCompile(`%[-+# 0-9.*\[\]]*[a-zA-Z%]`)

func (e *Engine) newFT(fn *ssa.Function) *FT {
	return &FT{e: e, top: fn, occ: map[string]int{}, assumed: map[string]bool{}, inlined: map[string]bool{}, havocked: map[string]bool{}, staticLen: map[string]int{}}
}

// verifyFunc generates the obligations of fn against its contract (fc may be
// nil: only safety obligations / site assertions are generated).
// verifyFuncAll: one FT per specialisation variant (usually one).
func (e *Engine) verifyFuncAll(fn *ssa.Function, fc *FuncContract, safety bool) []*FT {
	if fc == nil || len(fc.Specialize) == 0 {
		return []*FT{e.verifyFunc(fn, fc, safety, nil, "")}
	}
	var out []*FT
	env := &SpecEnv{ft: &FT{e: e}, pkg: e.pkgOf(fn).Pkg}
	it, err := env.resolveType(fc.Specialize[0])
	if err != nil {
		e.cerrors = append(e.cerrors, fmt.Sprintf("%s: specialize: %v", fc.Name, err))
		return nil
	}
	for _, impl := range e.implementingTypes(it) {
		name := typeName(impl)
		out = append(out, e.verifyFunc(fn, fc, safety, map[string]types.Type{types.TypeString(it, nil): impl}, name))
	}
	if len(out) == 0 {
		e.cerrors = append(e.cerrors, fmt.Sprintf("%s: specialize %s: no implementations", fc.Name, fc.Specialize[0]))
	}
	return out
}

func (e *Engine) verifyFunc(fn *ssa.Function, fc *FuncContract, safety bool, devirt map[string]types.Type, variant string) *FT {
	ft := e.newFT(fn)
	ft.devirt = devirt
	ft.variant = variant
	saved := e.safetyMode
	e.safetyMode = safety
	defer func() { e.safetyMode = saved }()
	fr := &frame{ft: ft, fn: fn, vals: map[ssa.Value]Val{}, fc: fc, lets: map[string]SVal{}}
	st := &State{heaps: map[string]string{}}
	u := e.u
	// A function that no deferred call can reach never runs while a panic is
	// propagating; the others are verified for both situations.
	if !e.deferReachable(fn) {
		st.heaps[panickingHeap] = "false"
	}
	bind := func(v ssa.Value, name string, nullable bool) {
		s := u.sortOf(v.Type())
		t := Term{ft.fresh(name, s), s}
		fr.vals[v] = Val{T: t}
		ft.assumeAllocated(st, "true", t)
		fr.assumeTypeRange(t, v.Type())
		if s == SRef && !nullable {
			switch v.Type().Underlying().(type) {
			case *types.Pointer:
				ft.assume("true", not(eq(t.S, "null")))
			}
		}
	}
	for _, p := range fn.Params {
		nullable := true
		// receivers are assumed non-nil; other pointers only if not declared nullable
		if fn.Signature.Recv() != nil && len(fn.Params) > 0 && p == fn.Params[0] {
			nullable = false
		} else if fc != nil && !fc.Nullable[p.Name()] && len(fc.Nullable) > 0 {
			nullable = fc.Nullable[p.Name()]
		}
		if fc != nil && fc.Nullable["*"] {
			nullable = true
		}
		_ = nullable
		bind(p, p.Name(), e.paramNullable(fn, fc, p))
	}
	for _, fv := range fn.FreeVars {
		bind(fv, fv.Name(), false)
	}
	e.bindCapturedClosures(ft, fr, fn, st)
	fr.entry = st.clone()
	if fc != nil {
		fc.used = true
		env := fr.ownEnv(st, fr.entry, nil)
		for _, l := range fc.Lets {
			v, err := env.eval(l.E)
			if err != nil {
				e.contractError(l, err)
				continue
			}
			fr.lets[l.Label] = v
			env.vars[l.Label] = v
		}
		for _, r := range fc.Requires {
			fact, err := env.evalBool(r.E)
			if err != nil {
				e.contractError(r, err)
				continue
			}
			ft.assume("true", fact)
			if r.Hypothesis {
				ft.assumed["HYPOTHESIS of "+fc.Name+" (property hypothesis, not checked at call sites): "+r.Text] = true
			}
		}
		for _, in := range fc.Inits {
			v, err := env.eval(in.E)
			if err != nil {
				e.contractError(in, err)
				continue
			}
			ft.setHeap(st, e.ghostHeap(in.Label), v.T.S)
		}
		// vacuity: the preconditions are satisfiable
		if len(fc.Requires) > 0 {
			o := fr.oblig("cover/entry", allProps(fc), fn.Pos(), "requires satisfiable", "true", "true")
			o.Cover = true
		}
	}
	if fc != nil && fc.Trusted && !(safety && len(fc.TrustedFor) > 0 && !hasProp(fc.TrustedFor, "C20")) {
		return ft
	}
	ft.inlineStack = []*ssa.Function{fn}
	fr.execBody(st.clone(), "true")
	if fc != nil {
		type goalAcc struct {
			c     *Clause
			conds []string
			goals []string
		}
		collect := func(exits []exitEdge, clauses []*Clause, kind string, withUpdates bool) {
			accs := make([]*goalAcc, len(clauses))
			fully := make([]bool, len(clauses))
			for i, c := range clauses {
				accs[i] = &goalAcc{c: c}
			}
			defer func() {
				for i, c := range clauses {
					if c.E != nil && len(exits) > 0 && !fully[i] && len(accs[i].goals) > 0 {
						e.contractError(c, fmt.Errorf("clause refers to names that exist at no exit of %s", fn.Name()))
					}
				}
			}()
			for _, x := range exits {
				env := fr.ownEnv(x.st, fr.entry, x.block)
				env.tolerant = true
				env.paramsAtEntry = true
				if kind == "post" {
					var res Val
					if len(x.results) == 1 {
						res = x.results[0]
					} else {
						res = Val{Tuple: x.results}
					}
					env.bindResults(fn.Signature, fn, res)
				}
				if withUpdates {
					// ghost code: sequential assignments at exit
					for _, up := range fc.Updates {
						v, err := env.eval(up.E)
						if err != nil {
							e.contractError(up, err)
							continue
						}
						ft.setHeap(x.st, e.ghostHeap(up.Label), v.T.S)
					}
				}
				for i, en := range clauses {
					if en.E == nil {
						continue
					}
					env.toleranceUsed = false
					goal, err := env.evalBool(en.E)
					if err != nil {
						e.contractError(en, err)
						continue
					}
					if !env.toleranceUsed {
						fully[i] = true
					}
					if os.Getenv("GOVC_SPLIT_EXITS") != "" {
						fr.oblig(kind+"-exit", en.Props, fn.Pos(), en.name(), x.cond, goal)
					}
					accs[i].conds = append(accs[i].conds, x.cond)
					accs[i].goals = append(accs[i].goals, implies(x.cond, goal))
				}
			}
			for _, a := range accs {
				if len(a.goals) == 0 {
					continue
				}
				fr.oblig(kind, a.c.Props, fn.Pos(), a.c.name(), or(a.conds...), and(a.goals...))
			}
		}
		fr.appendAliasObligations(allProps(fc))
		// loop clauses must name a loop that exists (a removed loop takes its
		// invariants and variants with it: report them instead of dropping them)
		if nl := len(findLoops(fn).loops); true {
			for _, l := range [][]*Clause{fc.Invs, fc.Decr} {
				for _, c := range l {
					if c.Site == "" && (c.Loop < 1 || c.Loop > nl) {
						e.contractError(c, fmt.Errorf("%s has no loop %d (%d loops): header %q", fn.Name(), c.Loop, nl, c.Header))
					}
				}
			}
		}
		// "#*" site clauses must bind to at least one statement
		for _, a := range fc.Asserts {
			if a.Occ != -1 || a.E == nil || a.Optional {
				continue
			}
			found := false
			for _, b := range fn.Blocks {
				for _, ins := range b.Instrs {
					if fr.isSiteInstr(ins) && fr.isAssertSite(a, ins) {
						found = true
					}
				}
			}
			if !found && (a.Kind == "assert" || a.Kind == "assign") {
				o := fr.oblig("assert", a.Props, fn.Pos(), a.name(), "true", "false")
				o.SrcLine = fmt.Sprintf("no statement containing %q exists in %s any more", a.Site, fn.Name())
			}
		}
		fr.loopCoverObligations()
		// vacuity: some normal exit is reachable under the assumptions made on the way
		if len(fr.exits) > 0 && (len(fc.Ensures) > 0 || len(fc.Requires) > 0) {
			var conds []string
			for _, x := range fr.exits {
				conds = append(conds, x.cond)
			}
			o := fr.oblig("cover/exit", allProps(fc), fn.Pos(), "normal exit reachable", or(conds...), "true")
			o.Cover = true
		}
		collect(fr.exits, fc.Ensures, "post", true)
		collect(fr.xexits, fc.XEnsures, "xpost", false)
		// declared frame covers inferred effects
		if fc.HasMod {
			decl := e.resolveModifies(fc, fn)
			for _, u := range fc.Updates {
				decl[e.ghostHeap(u.Label)] = true
			}
			for h, l := range e.modsets[fn] {
				if l == modAny && !decl[h] && h != panickingHeap && h != panicvalHeap {
					goal := "false"
					fr.oblig("frame", allProps(fc), fn.Pos(), "writes "+h+" outside modifies", "true", goal)
				}
			}
		}
	}
	return ft
}

func (e *Engine) paramNullable(fn *ssa.Function, fc *FuncContract, p *ssa.Parameter) bool {
	if fn.Signature.Recv() != nil && len(fn.Params) > 0 && p == fn.Params[0] {
		return false
	}
	// a parameter the function itself compares with nil may be nil: the code
	// behind that test must not count as unreachable
	if paramTestedForNil(fn, p) {
		return true
	}
	if fc != nil {
		if fc.Nullable[p.Name()] || fc.Nullable["*"] {
			return true
		}
		return false
	}
	// without contract: pointer parameters of repository struct types are
	// assumed non-nil (listed assumption), others may be nil
	if pt, ok := p.Type().Underlying().(*types.Pointer); ok {
		if n, ok := pt.Elem().(*types.Named); ok && n.Obj().Pkg() != nil && strings.HasPrefix(n.Obj().Pkg().Path(), repoPkgPrefix) {
			return false
		}
	}
	return true
}

func allProps(fc *FuncContract) []string {
	seen := map[string]bool{}
	var out []string
	add := func(cs []*Clause) {
		for _, c := range cs {
			for _, p := range c.Props {
				if !seen[p] {
					seen[p] = true
					out = append(out, p)
				}
			}
		}
	}
	add(fc.Requires)
	add(fc.Ensures)
	add(fc.XEnsures)
	add(fc.Invs)
	add(fc.Asserts)
	return out
}

// libCall: Go-side models of generic library functions. Returns ok=false if
// the function has no model here.
func (fr *frame) libCall(instr *ssa.Call, callee *ssa.Function, name string, sig *types.Signature, args []Val, st *State, reach string, pos interface{}) (string, bool) {
	ft := fr.ft
	u := ft.e.u
	switch name {
	case "path.Join", "path/filepath.Join":
		// variadic with statically known argument count: uninterpreted function of the elements
		if len(args) == 1 {
			if n, ok := ft.staticLen[args[0].T.S]; ok && n > 0 && n <= 6 {
				h, _ := u.elemHeap(types.Typ[types.String])
				arr := sel(ft.heapTerm(st, h), sx("sbase", args[0].T.S))
				var as, sorts []string
				for i := 0; i < n; i++ {
					as = append(as, sel(arr, fmt.Sprint(i)))
					sorts = append(sorts, "Str")
				}
				fn := fmt.Sprintf("ext$path.Join$%d", n)
				u.declFun(fn, fmt.Sprintf("(declare-fun %s (%s) Str)", fn, strings.Join(sorts, " ")))
				jt := ft.define("joined", SStr, sx(fn, as...))
				fr.setResult(instr, Val{T: Term{jt, SStr}})
				if ft.e.curProp == "C17" && fr.taintDecls() {
					var pre []string
					for _, a := range as {
						pre = append(pre, sx("spec$secretFree", a))
					}
					ft.assume("true", implies(and(pre...), sx("spec$secretFree", jt)))
				}
				ft.e.usedExternals[name] = "uf-of-elements"
				return reach, true
			}
		}
		return reach, false
	case "slices.Sorted":
		// idiom slices.Sorted(maps.Keys(m)): a fresh slice holding exactly the
		// keys of m (each key has a position: witness function)
		if instr == nil || len(instr.Call.Args) != 1 {
			return reach, false
		}
		kc, ok := instr.Call.Args[0].(*ssa.Call)
		if !ok {
			return reach, false
		}
		ko := kc.Call.StaticCallee()
		if ko == nil || ft.e.extName(ko) != "maps.Keys" || len(kc.Call.Args) != 1 {
			return reach, false
		}
		mt, ok := kc.Call.Args[0].Type().Underlying().(*types.Map)
		if !ok {
			return reach, false
		}
		m := fr.term(kc.Call.Args[0])
		dom, _, ks, _ := u.mapHeaps(mt)
		h, es := u.elemHeap(mt.Key())
		r := ft.newRef(st, "sortedkeys", reach)
		n := ft.fresh("nkeys", SInt)
		arr := ft.fresh("keys_arr", arraySort(SInt, es))
		ft.n++
		widx := fmt.Sprintf("keyidx!%d", ft.n)
		fmt.Fprintf(&ft.decls, "(declare-fun %s (%s) Int)\n", widx, ks)
		d := ft.fresh("keys_dom", arraySort(ks, SBool))
		ft.assume("true", ite(eq(m.S, "null"), eq(d, fmt.Sprintf("((as const (Array %s Bool)) false)", ks)), eq(d, sel(ft.heapTerm(st, dom), m.S))))
		ft.assume("true", sx(">=", n, "0"))
		res := ft.fresh("sortedkeys", SSlice)
		ft.assume("true", eq(res, ite(eq(n, "0"), "nilslice", sx("mk-slice", r, "0", n, n))))
		ft.assume("true", fmt.Sprintf("(forall ((i Int)) (! (=> (and (<= 0 i) (< i %s)) (select %s (select %s (ix %s i)))) :pattern ((select %s (ix %s i)))))", n, d, arr, res, arr, res))
		ft.assume("true", fmt.Sprintf("(forall ((k %s)) (! (=> (select %s k) (and (<= 0 (%s k)) (< (%s k) %s) (= (select %s (ix %s (%s k))) k))) :pattern ((select %s k))))", ks, d, widx, widx, n, arr, res, widx, d))
		ft.setHeap(st, h, store(ft.heapTerm(st, h), r, arr))
		fr.setResult(instr, Val{T: Term{res, SSlice}})
		ft.e.usedExternals["slices.Sorted(maps.Keys(m))"] = "model: fresh slice holding exactly the keys of m"
		return reach, true
	case "slices.Insert":
		// slices.Insert(s, i, v...): value semantics like append (fresh array):
		// result = s[:i] ++ v ++ s[i:]
		if instr == nil || len(instr.Call.Args) != 3 {
			return reach, false
		}
		stp, ok := instr.Call.Args[0].Type().Underlying().(*types.Slice)
		if !ok {
			return reach, false
		}
		h, es := u.elemHeap(stp.Elem())
		sv := ft.termOf(args[0], instr.Call.Args[0].Type())
		iv := ft.termOf(args[1], instr.Call.Args[1].Type())
		vv := ft.termOf(args[2], instr.Call.Args[2].Type())
		heap := ft.heapTerm(st, h)
		sArr := ft.define("ins_s", arraySort(SInt, es), sel(heap, sx("sbase", sv.S)))
		vArr := ft.define("ins_v", arraySort(SInt, es), sel(heap, sx("sbase", vv.S)))
		n := ft.define("ins_n", SInt, sx("slen", vv.S))
		total := ft.define("ins_len", SInt, sx("+", sx("slen", sv.S), n))
		if ft.e.wantSafety(fr) {
			fr.oblig("safe/index", []string{"C20"}, instr.Pos(), ft.e.lineText(instr.Pos()), reach, and(sx("<=", "0", iv.S), sx("<=", iv.S, sx("slen", sv.S))))
		}
		r := ft.newRef(st, "inserted", reach)
		na := ft.fresh("ins_arr", arraySort(SInt, es))
		ft.assume("true", fmt.Sprintf("(forall ((j Int)) (! (=> (and (<= 0 j) (< j %s)) (= (select %s j) (ite (< j %s) (select %s (ix %s j)) (ite (< j (+ %s %s)) (select %s (ix %s (- j %s))) (select %s (ix %s (- j %s))))))) :pattern ((select %s j))))",
			total, na, iv.S, sArr, sv.S, iv.S, n, vArr, vv.S, iv.S, sArr, sv.S, n, na))
		ft.setHeap(st, h, store(ft.heapTerm(st, h), r, na))
		res := ft.define("inserted", SSlice, sx("mk-slice", r, "0", total, total))
		fr.setResult(instr, Val{T: Term{res, SSlice}})
		ft.e.usedExternals[name] = "model: fresh slice s[:i] ++ v ++ s[i:]"
		return reach, true
	case "slices.Reverse":
		// in-place reversal: s[j] becomes old s[len-1-j], nothing else changes
		if instr == nil || len(instr.Call.Args) != 1 {
			return reach, false
		}
		stp, ok := instr.Call.Args[0].Type().Underlying().(*types.Slice)
		if !ok {
			return reach, false
		}
		h, es := u.elemHeap(stp.Elem())
		sv := ft.termOf(args[0], instr.Call.Args[0].Type())
		oldArr := ft.define("rev_old", arraySort(SInt, es), sel(ft.heapTerm(st, h), sx("sbase", sv.S)))
		na := ft.fresh("rev_arr", arraySort(SInt, es))
		n := sx("slen", sv.S)
		ft.assume("true", fmt.Sprintf("(forall ((j Int)) (! (=> (and (<= 0 j) (< j %s)) (= (select %s (ix %s j)) (select %s (ix %s (- (- %s 1) j))))) :pattern ((select %s (ix %s j)))))", n, na, sv.S, oldArr, sv.S, n, na, sv.S))
		ft.assume("true", fmt.Sprintf("(forall ((k Int)) (! (=> (or (< k (soff %s)) (>= k (+ (soff %s) %s))) (= (select %s k) (select %s k))) :pattern ((select %s k))))", sv.S, sv.S, n, na, oldArr, na))
		ft.setHeap(st, h, ite(eq(sx("sbase", sv.S), "null"), ft.heapTerm(st, h), store(ft.heapTerm(st, h), sx("sbase", sv.S), na)))
		ft.e.usedExternals[name] = "model: in-place reversal"
		return reach, true
	case "fmt.Sprintf":
		// a constant format with literal text yields a non-empty string
		if instr == nil || len(instr.Call.Args) < 1 {
			return reach, false
		}
		fc, ok := instr.Call.Args[0].(*ssa.Const)
		if !ok || fc.Value == nil || fc.Value.Kind() != constant.String {
			return reach, false
		}
		lit := sprintfVerb.ReplaceAllString(constant.StringVal(fc.Value), "")
		if lit == "" {
			return reach, false
		}
		fr.escapeArgs(st, args)
		cl := fr.operandsClean(instr, args, st)
		r := ft.fresh("sprintf", SStr)
		// a constant format applied to strings, integers and booleans is a pure
		// function of these operands: the same uninterpreted function everywhere
		if ops, ok := sprintfOperands(instr); ok {
			var as []string
			var sorts []Sort
			scalar := true
			for _, o := range ops {
				so := u.sortOf(o.Type())
				if so != SStr && so != SInt && so != SBool {
					scalar = false
					break
				}
				as = append(as, fr.term(o).S)
				sorts = append(sorts, so)
			}
			if scalar {
				fn := u.sprintfUF(constant.StringVal(fc.Value), sorts)
				if len(as) == 0 {
					r = ft.define("sprintf", SStr, fn)
				} else {
					r = ft.define("sprintf", SStr, sx(fn, as...))
				}
			}
		}
		ft.assume("true", sx(">", sx("strlen", r), "0"))
		if cl != "" {
			ft.assume("true", eq(sx("spec$secretFree", r), cl))
		}
		fr.setResult(instr, Val{T: Term{r, SStr}})
		ft.e.usedExternals[name] = "fresh-result, non-empty for a format with literal text"
		return reach, true
	case "(error).Error":
		if len(args) != 1 || !fr.taintDecls() {
			return reach, false
		}
		recv := ft.termOf(args[0], types.Universe.Lookup("error").Type())
		u.declFun("spec$errText", "(declare-fun spec$errText (Ref) Str)")
		r := ft.define("errtext", SStr, sx("spec$errText", recv.S))
		ft.assume("true", eq(sx("spec$secretFree", r), sx("spec$cleanAny", recv.S)))
		fr.setResult(instr, Val{T: Term{r, SStr}})
		return reach, true
	case "errors.New", "fmt.Errorf":
		r := ft.newRef(st, "err", reach)
		ft.assume("true", eq(sx("dyntype", r), fmt.Sprint(u.typeID(types.Universe.Lookup("error").Type())*1000+7)))
		fr.setResult(instr, Val{T: Term{r, SRef}})
		// taint discipline (C17): the message is secret free iff every operand is
		if cl := fr.operandsClean(instr, args, st); cl != "" {
			fr.taintDecls()
			ft.assume("true", eq(sx("spec$cleanAny", r), cl))
		}
		return reach, true
	}
	return reach, false
}

// sprintfOperands: the values boxed into the variadic argument of a call
// fmt.Sprintf(format, a, b, ...), in order (false if the call is not of that
// plain shape).
func sprintfOperands(instr *ssa.Call) ([]ssa.Value, bool) {
	if len(instr.Call.Args) != 2 {
		return nil, false
	}
	if k, ok := instr.Call.Args[1].(*ssa.Const); ok && k.Value == nil {
		return nil, true // no operands
	}
	sl, ok := instr.Call.Args[1].(*ssa.Slice)
	if !ok {
		return nil, false
	}
	al, ok := sl.X.(*ssa.Alloc)
	if !ok {
		return nil, false
	}
	at, ok := al.Type().Underlying().(*types.Pointer).Elem().Underlying().(*types.Array)
	if !ok {
		return nil, false
	}
	ops := make([]ssa.Value, at.Len())
	for _, ref := range *al.Referrers() {
		ia, ok := ref.(*ssa.IndexAddr)
		if !ok {
			continue
		}
		k, ok := ia.Index.(*ssa.Const)
		if !ok {
			return nil, false
		}
		for _, r2 := range *ia.Referrers() {
			if stI, ok := r2.(*ssa.Store); ok && stI.Addr == ssa.Value(ia) {
				v := stI.Val
				if mi, ok := v.(*ssa.MakeInterface); ok {
					v = mi.X
				}
				ops[k.Int64()] = v
			}
		}
	}
	for _, o := range ops {
		if o == nil {
			return nil, false
		}
	}
	return ops, true
}

// taintDecls declares the taint predicates of /verif/specs/taint.vc when the
// contracts use them (C17).
func (fr *frame) taintDecls() bool {
	e := fr.ft.e
	if e.cs.Specs["secretFree"] == nil || e.cs.Specs["cleanAny"] == nil {
		return false
	}
	u := e.u
	u.declFun("spec$secretFree", "(declare-fun spec$secretFree (Str) Bool)")
	u.declFun("spec$cleanAny", "(declare-fun spec$cleanAny (Ref) Bool)")
	return true
}

// operandsClean: for errors.New(msg), fmt.Errorf(format, args...) and
// fmt.Sprintf(format, args...): the SMT condition "every string/error operand
// is secret free" ("" if it cannot be expressed: unknown operand count).
func (fr *frame) operandsClean(instr *ssa.Call, args []Val, st *State) string {
	ft := fr.ft
	u := ft.e.u
	if instr == nil || !fr.taintDecls() {
		return ""
	}
	if len(instr.Call.Args) == 0 {
		return ""
	}
	first := ft.termOf(args[0], instr.Call.Args[0].Type())
	conds := []string{sx("spec$secretFree", first.S)}
	if len(args) == 1 {
		return and(conds...)
	}
	if len(args) != 2 {
		return ""
	}
	va := ft.termOf(args[1], instr.Call.Args[1].Type())
	n, ok := ft.staticLen[va.S]
	if !ok {
		// nil variadic slice: no operands
		if va.S == "nilslice" {
			return and(conds...)
		}
		return ""
	}
	vst, isSl := instr.Call.Args[1].Type().Underlying().(*types.Slice)
	if !isSl {
		return ""
	}
	h, _ := u.elemHeap(vst.Elem())
	arr := sel(ft.heapTerm(st, h), sx("sbase", va.S))
	for i := 0; i < n; i++ {
		conds = append(conds, sx("spec$cleanAny", sel(arr, sx("ix", va.S, fmt.Sprint(i)))))
	}
	return and(conds...)
}

// bindCapturedClosures: when a closure is verified on its own, a captured
// variable of function type that the parent assigns exactly once (a closure
// literal) is bound to that closure, so calls through it can be resolved.
func (e *Engine) bindCapturedClosures(ft *FT, fr *frame, fn *ssa.Function, st *State) {
	parent := fn.Parent()
	if parent == nil || len(fn.FreeVars) == 0 {
		return
	}
	// find the MakeClosure of fn in the parent
	var mk *ssa.MakeClosure
	for _, b := range parent.Blocks {
		for _, ins := range b.Instrs {
			if m, ok := ins.(*ssa.MakeClosure); ok && m.Fn == ssa.Value(fn) {
				mk = m
			}
		}
	}
	if mk == nil {
		return
	}
	for i, fv := range fn.FreeVars {
		pt, ok := fv.Type().Underlying().(*types.Pointer)
		if !ok {
			continue
		}
		if _, isFunc := pt.Elem().Underlying().(*types.Signature); !isFunc {
			continue
		}
		alloc, ok := mk.Bindings[i].(*ssa.Alloc)
		if !ok {
			continue
		}
		var stored *ssa.MakeClosure
		n := 0
		for _, ref := range *alloc.Referrers() {
			if stI, ok := ref.(*ssa.Store); ok && stI.Addr == ssa.Value(alloc) {
				n++
				if m2, ok := stI.Val.(*ssa.MakeClosure); ok {
					stored = m2
				}
			}
		}
		if n != 1 || stored == nil {
			continue
		}
		target := stored.Fn.(*ssa.Function)
		var binds []Val
		for _, tfv := range target.FreeVars {
			var v Val
			found := false
			for _, own := range fn.FreeVars {
				if own.Name() == tfv.Name() && types.Identical(own.Type(), tfv.Type()) {
					v = fr.vals[own]
					found = true
				}
			}
			if !found {
				s := e.u.sortOf(tfv.Type())
				t := Term{ft.fresh(tfv.Name(), s), s}
				ft.assumeAllocated(st, "true", t)
				if s == SRef {
					ft.assume("true", not(eq(t.S, "null")))
				}
				v = Val{T: t}
			}
			binds = append(binds, v)
		}
		cell := fr.vals[fv].T.S
		if e.cellClos[ft] == nil {
			e.cellClos[ft] = map[string]*Closure{}
		}
		e.cellClos[ft][cell] = &Closure{Fn: target, Bindings: binds}
	}
}

// appendAliasObligations backs the value-semantics model of append: an
// append whose first argument is a two-index sub-slice x[a:b] of a slice o
// may write in place into o's backing array. That is harmless only if no
// slice viewing that array (o itself, or another sub-slice of o) is read
// afterwards. One obligation per such append site.
func (fr *frame) appendAliasObligations(props []string) {
	fn := fr.fn
	e := fr.ft.e
	origin := func(v ssa.Value) (ssa.Value, bool) {
		sub := false
		for {
			sl, ok := v.(*ssa.Slice)
			if !ok {
				return v, sub
			}
			if _, isSl := sl.X.Type().Underlying().(*types.Slice); !isSl {
				return v, sub
			}
			if sl.Max != nil {
				return v, false // capacity cut: append reallocates
			}
			sub = true
			v = sl.X
		}
	}
	// two loads of the same field of the same object denote the same slice
	// (as long as the field is not assigned in between: ignored, conservative
	// in the direction of more obligations failing)
	key := func(v ssa.Value) string {
		if ld, ok := v.(*ssa.UnOp); ok && ld.Op == token.MUL {
			if fa, ok := ld.X.(*ssa.FieldAddr); ok {
				return fmt.Sprintf("field:%s.%d", fa.X.Name(), fa.Field)
			}
		}
		return "val:" + v.Name()
	}
	for _, b := range fn.Blocks {
		for idx, ins := range b.Instrs {
			call, ok := ins.(*ssa.Call)
			if !ok {
				continue
			}
			bi, isB := call.Call.Value.(*ssa.Builtin)
			if !isB || bi.Name() != "append" || len(call.Call.Args) != 2 {
				continue
			}
			// the first argument may be a phi of several values: every sub-slice among them counts
			var cands []ssa.Value
			var collect func(v ssa.Value, depth int)
			collect = func(v ssa.Value, depth int) {
				if phi, ok := v.(*ssa.Phi); ok && depth < 4 {
					for _, ed := range phi.Edges {
						collect(ed, depth+1)
					}
					return
				}
				cands = append(cands, v)
			}
			collect(call.Call.Args[0], 0)
			var o ssa.Value
			isSub := false
			var subVal ssa.Value
			for _, cv := range cands {
				if oo, sub := origin(cv); sub {
					o, isSub, subVal = oo, true, cv
				}
			}
			if !isSub {
				continue
			}
			_ = subVal
			// instructions that may execute after the append
			after := map[ssa.Instruction]bool{}
			for _, x := range b.Instrs[idx+1:] {
				after[x] = true
			}
			seen := map[*ssa.BasicBlock]bool{}
			var walk func(bb *ssa.BasicBlock)
			walk = func(bb *ssa.BasicBlock) {
				if seen[bb] {
					return
				}
				seen[bb] = true
				for _, x := range bb.Instrs {
					after[x] = true
				}
				for _, sc := range bb.Succs {
					walk(sc)
				}
			}
			for _, sc := range b.Succs {
				walk(sc)
			}
			// views of o's array: o and every sub-slice of it
			bad := ""
			views := []ssa.Value{o}
			for _, bb := range fn.Blocks {
				for _, x := range bb.Instrs {
					if sl, ok := x.(*ssa.Slice); ok {
						if oo, _ := origin(sl); key(oo) == key(o) && ssa.Value(sl) != call.Call.Args[0] && ssa.Value(sl) != subVal {
							views = append(views, sl)
						}
					}
				}
			}
			// values that may be one of these views: phis over them (fixpoint)
			inViews := map[ssa.Value]bool{}
			for _, v := range views {
				inViews[v] = true
			}
			for changed := true; changed; {
				changed = false
				for _, bb := range fn.Blocks {
					for _, x := range bb.Instrs {
						phi, ok := x.(*ssa.Phi)
						if !ok || inViews[phi] || ssa.Value(phi) == call.Call.Args[0] {
							continue
						}
						for k, ed := range phi.Edges {
							if !inViews[ed] {
								continue
							}
							// the phi may hold the view at the time of the append if it was
							// formed before it (its block dominates the append), or if the
							// view flows into it along an edge taken after the append
							pred := phi.Block().Preds[k]
							formedBefore := phi.Block() != b && phi.Block().Dominates(b) || (phi.Block() == b)
							if formedBefore || pred == b || seen[pred] {
								inViews[phi] = true
								views = append(views, phi)
								changed = true
								break
							}
						}
					}
				}
			}
			for _, v := range views {
				refs := v.Referrers()
				if refs == nil {
					continue
				}
				for _, r := range *refs {
					if r == ssa.Instruction(call) {
						continue
					}
					if _, isDbg := r.(*ssa.DebugRef); isDbg {
						continue
					}
					if sl, ok := r.(*ssa.Slice); ok && (ssa.Value(sl) == call.Call.Args[0] || ssa.Value(sl) == subVal) {
						continue
					}
					if phi, ok := r.(*ssa.Phi); ok {
						// the operand is used only along the edges it comes in through
						for k, ed := range phi.Edges {
							if ed != v {
								continue
							}
							pred := phi.Block().Preds[k]
							if pred == b || seen[pred] {
								bad = fmt.Sprintf("%s flows on after the append (%s)", v.Name(), e.lineText(phi.Pos()))
							}
						}
						continue
					}
					if after[r] {
						bad = fmt.Sprintf("%s is read after the append at %s", v.Name(), e.lineText(r.Pos()))
					}
				}
			}
			goal := "true"
			if bad != "" {
				goal = "false"
			}
			o2 := fr.oblig("alias/append", props, call.Pos(), e.lineText(call.Pos()), "true", goal)
			o2.SrcLine = "append to a sub-slice may write in place into the shared backing array: " + bad
		}
	}
}

// paramTestedForNil: the function compares parameter p with nil.
func paramTestedForNil(fn *ssa.Function, p *ssa.Parameter) bool {
	isNil := func(v ssa.Value) bool {
		c, ok := v.(*ssa.Const)
		return ok && c.Value == nil
	}
	for _, b := range fn.Blocks {
		for _, ins := range b.Instrs {
			if bo, ok := ins.(*ssa.BinOp); ok && (bo.Op == token.EQL || bo.Op == token.NEQ) {
				if (bo.X == ssa.Value(p) && isNil(bo.Y)) || (bo.Y == ssa.Value(p) && isNil(bo.X)) {
					return true
				}
			}
		}
	}
	return false
}
