#!/bin/bash
# Defect 1 (C20): IOS configuration whose ACL line uses "object-group NAME"
# (valid IOS syntax since 12.4(20)T, so a real device may answer "sh run" with it)
# crashes drc with "index out of range [0] with length 0" in
# cisco.(*parser).checkReferences (pkg/cisco/parse.go:169).
# Cause: postprocessIOSACL -> postprocessACLParts converts "object-group g1" to $REF and
# appends to c.ref, but the IOS cmdInfo type of "permit *" has an empty typ.ref,
# so c.typ.ref[i] is out of range.  Happens for device file, Netspoc file and raw file alike
# (and for the config read from a real device in "drc code/router").
# Expected by C20: exit status 0/1 and, if rejected, a message; observed: Go panic, exit 2.
. "$(dirname "$0")/common.inc"
cd "$T"
cat > dev <<'END'
ip access-list extended inside_in
 permit ip object-group g1 any
 deny ip any any
interface Ethernet0
 ip access-group inside_in in
END
cat > spoc <<'END'
ip access-list extended inside_in
 deny ip any any
interface Ethernet0
 ip access-group inside_in in
END
echo '{"model":"IOS","name_list":["router"],"ip_list":["10.1.13.33"]}' > spoc.info
echo "--- object-group in device configuration (first argument)"
run -q dev spoc
echo "--- object-group in Netspoc position (second argument)"
cp spoc.info dev.info
run -q spoc dev
