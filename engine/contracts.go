package main

// Contract files: comment-only Go files  go/pkg/<pkg>/zz_contracts_verif.go
// (//go:build verif) in the repository with //vc: directives, and trusted
// library/environment specifications in /verif/specs/*.vc (same directives
// without the //vc: prefix).

import (
	"bufio"
	"fmt"
	"os"
	"path/filepath"
	"regexp"
	"strings"
)

type Clause struct {
	Kind   string   // requires ensures xensures invariant decreases assert assume modifies ...
	Props  []string // property tags
	Text   string   // expression source
	E      Expr
	Loop   int    // for invariant/decreases: ordinal
	Header string // loop header source text to bind by
	Site   string // assert/assume: callee or source text
	Occ    int
	Label  string
	File   string
	Line   int
	After  bool // assert/assign bound to a call site: after the call returned (default: before)
	Optional bool // "#?" site clause: binds to every matching statement, possibly none
	Hypothesis bool // requires clause that states a hypothesis of the property (input/environment): assumed at entry, not checked at call sites, reported as assumption
}

type FuncContract struct {
	FreshResult bool
	TrustedFor []string // properties the trusted flag was tagged with (empty: all)
	Pkg      string // package path ("" for external specs: name is absolute)
	Name     string // RelString name
	Trusted  bool   // body not verified; contract assumed
	Pure     bool
	Inline   bool
	NoInline bool
	Ext      bool // from /verif/specs
	Requires []*Clause
	Ensures  []*Clause
	XEnsures []*Clause
	Invs     []*Clause
	Decr     []*Clause
	Asserts  []*Clause
	Modifies []string
	HasMod   bool
	MayPanic *bool
	Nullable map[string]bool
	Inits    []*Clause // ghost assignments at entry
	Specialize []string // interface types to devirtualise over their implementations
	Lets     []*Clause // ghost let bindings: let NAME = expr (entry state)
	Updates  []*Clause // ghost updates (only for trusted functions): set NAME = expr
	File     string
	Line     int
	used     bool
}

type GhostVar struct {
	StableOnReturn bool
	Mono bool
	Name string
	Type string
	Init string
	File string
}

type SpecFunc struct {
	Name   string
	Params []QVar
	Result string
	Body   Expr
	Text   string
	File   string
	Macro  bool // expanded at each use in the caller's state (may read the heap)
}

type Lemma struct {
	Name  string
	Props []string
	Text  string
	E     Expr
	File  string
}

type Axiom struct {
	Text string
	E    Expr
	File string
	Pkg  string
}

type OnlyRule struct {
	Props   []string
	Callee  string
	Allowed []string // function keys
	Within  bool     // "only CALLEE within this package in F1, F2": the rule speaks about call sites in the contract file's package only
	File    string
	Pkg     string
	Line    int
}

type GlobalConst struct {
	Props []string
	Name  string
	Func  string
	Lit   string
	File  string
	Pkg   string
	Line  int
}

// EmitOnSuccess: "emitonsuccess FUNC VAR": in FUNC no assignment to the
// (captured or local) variable VAR lies on a path that can still reach a
// `return false`: what FUNC itself emits into VAR is emitted only once
// success is certain.
type EmitOnSuccess struct {
	Props []string
	Func  string
	Var   string
	File  string
	Line  int
}

// ConstFormat: "constformat PKG": every call of a printf-like function in the
// repository package PKG (path suffix) passes a constant format string, or
// the enclosing function's own format parameter (a wrapper).
type ConstFormat struct {
	Props []string
	Pkg   string
	File  string
	Line  int
}

// FieldsCompared: "fieldscompared F1,F2 TYPE except A,B": every field of the
// struct TYPE (of the contract file's package) other than A, B is read by one
// of the functions F1, F2 or a function of the package they call.
type FieldsCompared struct {
	Props  []string
	Funcs  []string
	Type   string
	Except []string
	Pkg    string
	File   string
	Line   int
}

// FreshInLoop: "freshinloop FUNC VAR N": the local variable VAR of FUNC is
// declared inside loop N (a new variable in every iteration).
type FreshInLoop struct {
	Props []string
	Func  string
	Var   string
	Loop  int
	File  string
	Line  int
}

// ForbidGlobal: "forbidglobal PKG.NAME": no function of the repository refers
// to that package-level variable of a library.
type ForbidGlobal struct {
	Props []string
	Name  string
	File  string
	Line  int
}

// StoresOnly: "storesonly FUNC VAR in F1, F2": the local variable VAR of FUNC
// (possibly captured by its closures) is assigned only in the listed functions.
type StoresOnly struct {
	Props   []string
	Func    string
	Var     string
	Allowed []string
	File    string
	Line    int
}

type MapRangeRule struct {
	Props  []string
	Func   string // function key
	Ord    int
	Header string
	Kind   string // accumulate | first-match
	Reason string
	File   string
	Line   int
	used   bool
}

type Contracts struct {
	MapRanges []*MapRangeRule
	Onlys  []*OnlyRule
	GlobalConsts []*GlobalConst
	EmitOnSuccess []*EmitOnSuccess
	ConstFormats []*ConstFormat
	FieldsCompared []*FieldsCompared
	FreshInLoops []*FreshInLoop
	ForbidGlobals []*ForbidGlobal
	StoresOnlys []*StoresOnly
	Funcs  map[string]*FuncContract // key: pkgpath + "::" + relname, or absolute name for externals
	Ghosts map[string]*GhostVar
	Specs  map[string]*SpecFunc
	Lemmas []*Lemma
	Axioms []*Axiom
	Files  []string
	Errors []string
}

var clauseRe = regexp.MustCompile(`^(requires|hypothesis|ensures|xensures|invariant|decreases|assert|assume|modifies|trusted|freshresult|pure|inline|noinline|nullable|maypanic|nopanic|let|set|init|specialize|assign)\b(\[[A-Za-z0-9, ]*\])?\s*(.*)$`)
var topRe = regexp.MustCompile(`^(func|ghost|spec|axiom|lemma|iface|only|maprange|globalconst|emitonsuccess|constformat|fieldscompared|freshinloop|forbidglobal|storesonly)\b(\[[A-Za-z0-9, ]*\])?\s*(.*)$`)

func parseProps(s string) []string {
	s = strings.Trim(s, "[]")
	var out []string
	for _, p := range strings.Split(s, ",") {
		p = strings.TrimSpace(p)
		if p != "" {
			out = append(out, p)
		}
	}
	return out
}

const repoPkgPrefix = "github.com/hknutzen/Netspoc-Approve/go/"

func loadContracts(repoGo string, specDir string) *Contracts {
	cs := &Contracts{Funcs: map[string]*FuncContract{}, Ghosts: map[string]*GhostVar{}, Specs: map[string]*SpecFunc{}}
	files, _ := filepath.Glob(filepath.Join(repoGo, "pkg/*/zz_contracts_verif.go"))
	more, _ := filepath.Glob(filepath.Join(repoGo, "cmd/*/zz_contracts_verif.go"))
	files = append(files, more...)
	for _, f := range files {
		rel, _ := filepath.Rel(repoGo, filepath.Dir(f))
		cs.parseFile(f, repoPkgPrefix+rel, "//vc:")
	}
	specs, _ := filepath.Glob(filepath.Join(specDir, "*.vc"))
	for _, f := range specs {
		cs.parseFile(f, "", "")
	}
	for _, fc := range cs.Funcs {
		if fc.Ext {
			fc.Trusted = true
		}
	}
	return cs
}

func (cs *Contracts) errf(f string, line int, format string, a ...any) {
	cs.Errors = append(cs.Errors, fmt.Sprintf("%s:%d: %s", f, line, fmt.Sprintf(format, a...)))
}

func (cs *Contracts) parseFile(fname, pkg, prefix string) {
	fh, err := os.Open(fname)
	if err != nil {
		cs.Errors = append(cs.Errors, err.Error())
		return
	}
	defer fh.Close()
	cs.Files = append(cs.Files, fname)
	sc := bufio.NewScanner(fh)
	sc.Buffer(make([]byte, 1<<20), 1<<20)
	type rawLine struct {
		text string
		line int
	}
	var lines []rawLine
	n := 0
	for sc.Scan() {
		n++
		l := sc.Text()
		if prefix != "" {
			t := strings.TrimSpace(l)
			if !strings.HasPrefix(t, prefix) {
				continue
			}
			l = t[len(prefix):]
		} else {
			if i := strings.Index(l, "//"); i >= 0 && (i == 0 || l[i-1] == ' ') && !strings.Contains(l[:i], "\"") {
				l = l[:i]
			}
		}
		// strip trailing comment in contract files too
		if prefix != "" {
			if i := strings.Index(l, " // "); i >= 0 && !strings.Contains(l[i:], "\"") {
				l = l[:i]
			}
		}
		if strings.TrimSpace(l) == "" {
			continue
		}
		lines = append(lines, rawLine{l, n})
	}
	// join continuation lines: a line whose trimmed text starts with neither
	// a top keyword nor a clause keyword continues the previous one.
	var joined []rawLine
	for _, l := range lines {
		t := strings.TrimSpace(l.text)
		if topRe.MatchString(t) || clauseRe.MatchString(t) {
			joined = append(joined, rawLine{t, l.line})
		} else if len(joined) > 0 {
			joined[len(joined)-1].text += " " + t
		} else {
			cs.errf(fname, l.line, "stray line %q", t)
		}
	}
	var cur *FuncContract
	for _, l := range joined {
		if m := topRe.FindStringSubmatch(l.text); m != nil {
			cur = nil
			props := parseProps(m[2])
			rest := strings.TrimSpace(m[3])
			switch m[1] {
			case "func", "iface":
				name := rest
				key := name
				if pkg != "" {
					key = pkg + "::" + name
				}
				if old, ok := cs.Funcs[key]; ok {
					cur = old
				} else {
					cur = &FuncContract{Pkg: pkg, Name: name, File: fname, Line: l.line, Ext: pkg == "", Nullable: map[string]bool{}}
					cs.Funcs[key] = cur
				}
			case "ghost":
				// ghost var NAME TYPE [= init]
				f := strings.Fields(rest)
				if len(f) < 3 || f[0] != "var" {
					cs.errf(fname, l.line, "bad ghost declaration %q", rest)
					continue
				}
				g := &GhostVar{Name: f[1], File: fname}
				tail := strings.TrimSpace(strings.TrimPrefix(strings.TrimSpace(strings.TrimPrefix(rest, "var")), f[1]))
				if i := strings.Index(tail, "="); i >= 0 {
					g.Init = strings.TrimSpace(tail[i+1:])
					tail = strings.TrimSpace(tail[:i])
				}
				if strings.HasSuffix(tail, " nondecreasing") {
					g.Mono = true
					tail = strings.TrimSpace(strings.TrimSuffix(tail, " nondecreasing"))
				}
				if strings.HasSuffix(tail, " stable-on-return") {
					// unchanged whenever a call returns normally, unless the callee can recover a panic
					g.StableOnReturn = true
					tail = strings.TrimSpace(strings.TrimSuffix(tail, " stable-on-return"))
				}
				g.Type = tail
				if old, ok := cs.Ghosts[g.Name]; ok && old.Type != g.Type {
					cs.errf(fname, l.line, "ghost %s redeclared with different type", g.Name)
				}
				cs.Ghosts[g.Name] = g
			case "spec":
				sf, err := parseSpecFunc(rest)
				if err != nil {
					cs.errf(fname, l.line, "%v", err)
					continue
				}
				sf.File = fname
				cs.Specs[sf.Name] = sf
			case "maprange":
				// maprange FUNC N "header" KIND reason
				re := regexp.MustCompile(`^(\S+)\s+(\d+)\s+"([^"]*)"\s+(\S+)\s*(.*)$`)
				m2 := re.FindStringSubmatch(rest)
				if m2 == nil {
					cs.errf(fname, l.line, "maprange needs: FUNC N \"header\" KIND reason")
					continue
				}
				n := 0
				fmt.Sscanf(m2[2], "%d", &n)
				fn := m2[1]
				if pkg != "" && !strings.Contains(fn, "::") {
					fn = pkg + "::" + fn
				}
				cs.MapRanges = append(cs.MapRanges, &MapRangeRule{Props: props, Func: fn, Ord: n, Header: m2[3], Kind: strings.TrimSuffix(m2[4], ":"), Reason: m2[5], File: fname, Line: l.line})
			case "only":
				// only CALLEE in F1, F2
				i := strings.Index(rest, " in ")
				if i < 0 {
					cs.errf(fname, l.line, "only needs 'CALLEE in F1, F2'")
					continue
				}
				r := &OnlyRule{Props: props, Callee: strings.TrimSpace(rest[:i]), File: fname, Pkg: pkg, Line: l.line}
				if strings.HasSuffix(r.Callee, " within this package") {
					r.Callee = strings.TrimSpace(strings.TrimSuffix(r.Callee, " within this package"))
					r.Within = true
				}
				for _, a := range strings.Split(rest[i+4:], ",") {
					a = strings.TrimSpace(a)
					if a == "" {
						continue
					}
					if pkg != "" && !strings.Contains(a, "::") {
						a = pkg + "::" + a
					}
					r.Allowed = append(r.Allowed, a)
				}
				cs.Onlys = append(cs.Onlys, r)
			case "storesonly":
				i := strings.Index(rest, " in ")
				f := strings.Fields(rest)
				if i < 0 || len(f) < 4 {
					cs.errf(fname, l.line, "storesonly needs FUNC VAR in F1, F2")
					continue
				}
				q := func(n string) string {
					n = strings.TrimSpace(n)
					if pkg != "" && !strings.Contains(n, "::") {
						n = pkg + "::" + n
					}
					return n
				}
				r := &StoresOnly{Props: props, Func: q(f[0]), Var: f[1], File: fname, Line: l.line}
				for _, a := range strings.Split(rest[i+4:], ",") {
					if strings.TrimSpace(a) != "" {
						r.Allowed = append(r.Allowed, q(a))
					}
				}
				cs.StoresOnlys = append(cs.StoresOnlys, r)
			case "forbidglobal":
				if strings.TrimSpace(rest) == "" {
					cs.errf(fname, l.line, "forbidglobal needs PKG.NAME")
					continue
				}
				cs.ForbidGlobals = append(cs.ForbidGlobals, &ForbidGlobal{Props: props, Name: strings.TrimSpace(rest), File: fname, Line: l.line})
			case "freshinloop":
				f := strings.Fields(rest)
				n := 0
				if len(f) == 3 {
					fmt.Sscanf(f[2], "%d", &n)
				}
				if n == 0 {
					cs.errf(fname, l.line, "freshinloop needs FUNC VAR LOOP-ORDINAL")
					continue
				}
				fn := f[0]
				if pkg != "" && !strings.Contains(fn, "::") {
					fn = pkg + "::" + fn
				}
				cs.FreshInLoops = append(cs.FreshInLoops, &FreshInLoop{Props: props, Func: fn, Var: f[1], Loop: n, File: fname, Line: l.line})
			case "fieldscompared":
				f := strings.Fields(rest)
				if len(f) < 2 || (len(f) > 2 && (len(f) != 4 || f[2] != "except")) {
					cs.errf(fname, l.line, "fieldscompared needs FUNC[,FUNC] TYPE [except F1,F2]")
					continue
				}
				r := &FieldsCompared{Props: props, Type: f[1], Pkg: pkg, File: fname, Line: l.line}
				for _, fn := range strings.Split(f[0], ",") {
					if pkg != "" && !strings.Contains(fn, "::") {
						fn = pkg + "::" + fn
					}
					r.Funcs = append(r.Funcs, fn)
				}
				if len(f) == 4 {
					r.Except = strings.Split(f[3], ",")
				}
				cs.FieldsCompared = append(cs.FieldsCompared, r)
			case "constformat":
				cs.ConstFormats = append(cs.ConstFormats, &ConstFormat{Props: props, Pkg: pkg, File: fname, Line: l.line})
			case "emitonsuccess":
				f := strings.Fields(rest)
				if len(f) != 2 {
					cs.errf(fname, l.line, "emitonsuccess needs FUNC VAR")
					continue
				}
				fn := f[0]
				if pkg != "" && !strings.Contains(fn, "::") {
					fn = pkg + "::" + fn
				}
				cs.EmitOnSuccess = append(cs.EmitOnSuccess, &EmitOnSuccess{Props: props, Func: fn, Var: f[1], File: fname, Line: l.line})
			case "globalconst":
				// globalconst NAME FUNC "literal": the package variable NAME is assigned
				// exactly once, in the package initializer, the value FUNC("literal")
				re := regexp.MustCompile(`^(\S+)\s+(\S+)\s+"(.*)"$`)
				m := re.FindStringSubmatch(rest)
				if m == nil {
					cs.errf(fname, l.line, "globalconst needs NAME FUNC \"literal\"")
					continue
				}
				cs.GlobalConsts = append(cs.GlobalConsts, &GlobalConst{Props: props, Name: m[1], Func: m[2], Lit: m[3], File: fname, Pkg: pkg, Line: l.line})
			case "axiom":
				e, err := parseExpr(rest)
				if err != nil {
					cs.errf(fname, l.line, "%v", err)
					continue
				}
				cs.Axioms = append(cs.Axioms, &Axiom{Text: rest, E: e, File: fname, Pkg: pkg})
			case "lemma":
				i := strings.Index(rest, ":")
				if i < 0 {
					cs.errf(fname, l.line, "lemma needs NAME: EXPR")
					continue
				}
				e, err := parseExpr(rest[i+1:])
				if err != nil {
					cs.errf(fname, l.line, "%v", err)
					continue
				}
				cs.Lemmas = append(cs.Lemmas, &Lemma{Name: strings.TrimSpace(rest[:i]), Props: props, Text: strings.TrimSpace(rest[i+1:]), E: e, File: fname})
			}
			continue
		}
		m := clauseRe.FindStringSubmatch(l.text)
		if m == nil {
			continue
		}
		if cur == nil {
			cs.errf(fname, l.line, "clause outside func block: %q", l.text)
			continue
		}
		kind, props, rest := m[1], parseProps(m[2]), strings.TrimSpace(m[3])
		c := &Clause{Kind: kind, Props: props, Text: rest, File: fname, Line: l.line}
		if strings.HasPrefix(rest, "@") && kind != "let" && kind != "set" && kind != "init" {
			if i := strings.IndexAny(rest, " \t"); i > 0 {
				c.Label = rest[1:i]
				rest = strings.TrimSpace(rest[i:])
				c.Text = rest
			}
		}
		parse := func(s string) {
			e, err := parseExpr(s)
			if err != nil {
				cs.errf(fname, l.line, "%v", err)
				return
			}
			c.E = e
			c.Text = s
		}
		switch kind {
		case "trusted":
			// trusted[P]: the contract is an assumption for property P; the
			// function's own code is still swept for safety (C20)
			cur.Trusted = true
			cur.TrustedFor = props
		case "pure":
			cur.Pure = true
		case "inline":
			cur.Inline = true
		case "noinline":
			cur.NoInline = true
		case "maypanic":
			t := true
			cur.MayPanic = &t
		case "freshresult":
			// slice / pointer results are newly allocated and referenced by nobody else
			cur.FreshResult = true
		case "nopanic":
			f := false
			cur.MayPanic = &f
		case "nullable":
			for _, n := range strings.Split(rest, ",") {
				cur.Nullable[strings.TrimSpace(n)] = true
			}
		case "modifies":
			cur.HasMod = true
			for _, n := range strings.Split(rest, ",") {
				if n = strings.TrimSpace(n); n != "" && n != "nothing" {
					cur.Modifies = append(cur.Modifies, n)
				}
			}
		case "requires":
			parse(rest)
			cur.Requires = append(cur.Requires, c)
		case "hypothesis":
			parse(rest)
			c.Hypothesis = true
			cur.Requires = append(cur.Requires, c)
		case "ensures":
			parse(rest)
			cur.Ensures = append(cur.Ensures, c)
		case "xensures":
			parse(rest)
			cur.XEnsures = append(cur.XEnsures, c)
		case "specialize":
			cur.Specialize = append(cur.Specialize, rest)
		case "let", "set", "init":
			i := strings.Index(rest, "=")
			if i < 0 {
				cs.errf(fname, l.line, "%s needs NAME = EXPR", kind)
				continue
			}
			c.Label = strings.TrimSpace(rest[:i])
			parse(rest[i+1:])
			switch kind {
			case "let":
				cur.Lets = append(cur.Lets, c)
			case "init":
				cur.Inits = append(cur.Inits, c)
			default:
				cur.Updates = append(cur.Updates, c)
			}
		case "invariant", "decreases":
			// invariant [in CALLEE] N "header text" EXPR
			var nn int
			r := rest
			if strings.HasPrefix(r, "in ") {
				f := strings.Fields(r)
				if len(f) >= 2 {
					c.Site = f[1] // callee whose loop is meant (inlined into this function)
					r = strings.TrimSpace(strings.TrimPrefix(strings.TrimSpace(r[3:]), f[1]))
				}
			}
			if _, err := fmt.Sscanf(r, "%d", &nn); err != nil {
				cs.errf(fname, l.line, "%s needs loop ordinal", kind)
				continue
			}
			c.Loop = nn
			r = strings.TrimSpace(strings.TrimLeft(r, "0123456789"))
			if strings.HasPrefix(r, "\"") {
				j := strings.Index(r[1:], "\"")
				c.Header = r[1 : 1+j]
				r = strings.TrimSpace(r[j+2:])
			}
			if strings.HasPrefix(r, "@") {
				if i := strings.IndexAny(r, " \t"); i > 0 {
					c.Label = r[1:i]
					r = strings.TrimSpace(r[i:])
				}
			}
			variantText := r
			if kind == "decreases" {
				// decreases T: T is not negative at the head of an iteration and smaller at its end
				r = "0 <= iterold(" + r + ") && (" + r + ") < iterold(" + r + ")"
			}
			parse(r)
			if kind == "decreases" {
				c.Text = variantText
			}
			if kind == "invariant" {
				cur.Invs = append(cur.Invs, c)
			} else {
				cur.Decr = append(cur.Decr, c)
			}
		case "assert", "assume", "assign":
			// assert at "source text"#k EXPR   |  assert call NAME#k EXPR
			r := rest
			if strings.HasPrefix(r, "after ") {
				// after "source text": evaluated when the call at that site has returned
				c.After = true
				r = "at " + strings.TrimSpace(r[6:])
			}
			if strings.HasPrefix(r, "at ") {
				r = strings.TrimSpace(r[3:])
				if !strings.HasPrefix(r, "\"") {
					cs.errf(fname, l.line, "assert at needs quoted source text")
					continue
				}
				j := strings.Index(r[1:], "\"")
				c.Site = r[1 : 1+j]
				r = r[j+2:]
				c.Occ = 1
				if strings.HasPrefix(r, "#*") {
					// every statement whose source line contains the text
					c.Occ = -1
					r = r[2:]
				} else if strings.HasPrefix(r, "#?") {
					// every such statement, and there need not be any (a clause about
					// statements that must not appear in this function)
					c.Occ = -1
					c.Optional = true
					r = r[2:]
				} else if strings.HasPrefix(r, "#") {
					fmt.Sscanf(r[1:], "%d", &c.Occ)
					r = strings.TrimLeft(r[1:], "0123456789")
				}
				r = strings.TrimSpace(r)
			} else {
				cs.errf(fname, l.line, "assert needs 'at \"text\"'")
				continue
			}
			if strings.HasPrefix(r, "@") {
				if i := strings.IndexAny(r, " \t"); i > 0 {
					c.Label = r[1:i]
					r = strings.TrimSpace(r[i:])
				}
			}
			if kind == "assign" {
				// assign at "text" NAME = EXPR  (ghost assignment before the call at that site)
				i := strings.Index(r, "=")
				if i < 0 {
					cs.errf(fname, l.line, "assign needs NAME = EXPR")
					continue
				}
				c.Label = strings.TrimSpace(r[:i])
				r = r[i+1:]
			}
			parse(r)
			cur.Asserts = append(cur.Asserts, c)
		}
	}
}

func parseSpecFunc(s string) (*SpecFunc, error) {
	// func NAME(p T, q T) T [= expr]
	s = strings.TrimSpace(s)
	macro := false
	if strings.HasPrefix(s, "macro ") {
		macro = true
		s = "func " + strings.TrimSpace(s[6:])
	}
	if !strings.HasPrefix(s, "func ") {
		return nil, fmt.Errorf("spec needs 'func': %q", s)
	}
	s = strings.TrimSpace(s[5:])
	i := strings.Index(s, "(")
	if i < 0 {
		return nil, fmt.Errorf("spec func: missing '(' in %q", s)
	}
	sf := &SpecFunc{Name: strings.TrimSpace(s[:i]), Macro: macro}
	j := strings.Index(s, ")")
	params := s[i+1 : j]
	for _, p := range strings.Split(params, ",") {
		p = strings.TrimSpace(p)
		if p == "" {
			continue
		}
		f := strings.Fields(p)
		if len(f) < 2 {
			return nil, fmt.Errorf("spec func %s: bad parameter %q", sf.Name, p)
		}
		sf.Params = append(sf.Params, QVar{f[0], strings.Join(f[1:], "")})
	}
	rest := strings.TrimSpace(s[j+1:])
	if k := strings.Index(rest, "="); k >= 0 {
		sf.Result = strings.TrimSpace(rest[:k])
		sf.Text = strings.TrimSpace(rest[k+1:])
		e, err := parseExpr(sf.Text)
		if err != nil {
			return nil, err
		}
		sf.Body = e
	} else {
		sf.Result = rest
	}
	return sf, nil
}

func (c *Clause) name() string {
	if c.Label != "" {
		return "@" + c.Label
	}
	return c.Text
}
