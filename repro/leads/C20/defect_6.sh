#!/bin/bash
# Defect 6 (C20, contrived): PAN-OS address-group that lists itself as its only member
# (garbage XML; also a->b->a).  panos.getObjListType and rulesPair.markAddresses recurse
# without cycle check: "fatal error: stack overflow" (goroutine stack exceeds 1 GB),
# exit status 2 after about a second, no diagnostic.  (markServices has the same recursion
# for service-groups.)
. "$(dirname "$0")/common.inc"
cd "$T"
cat > spoc <<'END'
<config><devices><entry name="localhost.localdomain"><vsys><entry name="vsys2">
<rulebase><security><rules>
<entry name="r1">
<action>allow</action>
<from><member>z1</member></from>
<to><member>z2</member></to>
<source><member>g0</member></source>
<destination><member>any</member></destination>
<service><member>any</member></service>
<application><member>any</member></application>
</entry>
</rules></security></rulebase>
<address-group>
<entry name="g0"><static><member>g0</member></static></entry>
</address-group>
</entry></vsys></entry></devices></config>
END
cp spoc dev
echo '{"model":"PAN-OS","name_list":["router"],"ip_list":["10.1.13.33"]}' > spoc.info
LINES_SHOWN=3 run -q dev spoc
