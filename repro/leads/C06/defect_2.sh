#!/bin/bash
# Defect 2 (property C06): ASA/IOS banner check is satisfied by text that is
# NOT the login banner of the device.
#
# cisco.State.LoginEnable (go/pkg/cisco/device.go) collects in 'bannerLines'
# EVERYTHING received up to the first enable prompt and matches the
# configured 'checkbanner' regexp against it. This includes
#   - the password prompt of the local ssh client "USER@IP's password:",
#   - the device prompt "HOSTNAME>" / "HOSTNAME#", i.e. the hostname,
#   - the echo of "enable", ASA's "User USER logged in to HOSTNAME" line.
# So a device WITHOUT any banner passes the managed-by check if the
# marker text occurs in the login user name or in the hostname.
#
# Variant A: checkbanner = netspoc, approve user is "netspoc"
#            (the user name used all over go/testdata/*_simul.t).
#            ssh prints "netspoc@10.1.13.33's password:", device has no banner.
# Variant B: checkbanner = NetSPoC (value of etc/netspoc-approve),
#            device is named "NetSPoC-lab", device has no banner.
# Variant C (control): user "admin", device "router", no banner
#            -> correctly refused with "Missing banner at NetSPoC managed device".
#
# Expected by C06 for A and B: diagnostic + non-zero status, nothing changed.
# Observed: status 0, "configure terminal", "ip route ...", "write memory"
#           are sent to the device that lacks the marker.
#
# Usage: DRC=/path/to/drc ./defect_2.sh
set -u
REPO=${REPO:-/tmp/wt/C06b}
export GOFLAGS=-mod=mod GOPROXY=off GOSUMDB=off GOTOOLCHAIN=local
T=$(mktemp -d /tmp/C06b-scratch/d2.XXXXXX)
if [ -z "${DRC:-}" ]; then
    DRC=$T/drc; (cd $REPO/go && go build -o $DRC ./cmd/drc) || exit 2
fi

run() { # variant user devname bannerRE
    local v=$1 user=$2 dev=$3 re=$4
    local D=$T/$v
    mkdir -p $D/code $D/lock
    cd $D
    cat > .netspoc-approve <<EOF
basedir = $D
checkbanner = $re
systemuser = $user
timeout = 2
EOF
    echo "* $user secret" > credentials
    # Preamble: what 'ssh -l USER 10.1.13.33' shows, then the device
    # answers with its user mode prompt. NO banner anywhere.
    cat > scenario <<EOF
$user@10.1.13.33's password: <!>
$dev>
# sh ver
Cisco IOS Software, C2900 Software (C2900-UNIVERSALK9-M), Version 15.1(4)M4,
# configure terminal
Enter configuration commands, one per line.  End with CNTL/Z.
# reload in 2

System configuration has been modified. Save? [yes/no]: <!>
Reload reason: Reload Command
Proceed with reload? [confirm]<!>
# reload cancel


***
*** --- SHUTDOWN ABORTED ---
***
# write memory
Building configuration...
  Compressed configuration from 106098 bytes to 30504 bytes[OK]
EOF
    echo 'ip route 10.20.0.0 255.255.0.0 10.1.2.3' > code/$dev
    echo "{ \"model\": \"IOS\", \"name_list\": [\"$dev\"], \"ip_list\": [\"10.1.13.33\"] }" > code/$dev.info
    echo "=== Variant $v: user=$user device=$dev checkbanner=$re ==="
    HOME=$D SIMULATE_ROUTER="$REPO/go/testdata/simulate-cisco.pl $dev $D/scenario" \
        $DRC -q -L $D/log code/$dev
    local st=$?
    echo "exit status: $st"
    echo "--- login log:"; cat log/$dev.login; echo
    if [ -s log/$dev.change ]; then
        echo "--- commands sent (log/$dev.change):"; cat log/$dev.change; echo
    else
        echo "--- no change log / nothing sent"
    fi
    if [ $st -eq 0 ] && grep -q 'ip route 10.20.0.0' log/$dev.change 2>/dev/null
    then
        echo "RESULT $v: device without banner was CHANGED (status 0)"
    else
        echo "RESULT $v: refused"
    fi
    echo
}

run A netspoc router netspoc
run B admin NetSPoC-lab NetSPoC
run C admin router NetSPoC
