#!/bin/bash
# Defect 1 (property C12): the project's own daily cleanup job
# bin/delete-old-policies removes lock files (and even the whole lock
# directory) by mtime, also while a run holds the flock on them.
#
#  - device.SetLock opens <basedir>/lock/<device> with O_CREATE|O_RDONLY and
#    flocks it. The mtime of the lock file is never refreshed, so it stays
#    the time of the FIRST approve/compare of that device.
#  - bin/delete-old-policies runs
#        find $BASE/lock -maxdepth 1 -mtime +$DAYS -exec rm -rf {} \;
#    i.e. keep_history (default 365) days after the first run of a device it
#    unlinks lock/<device>, no matter whether it is flock'ed right now.
#    Because -mindepth 1 is missing it also removes the directory "lock"
#    itself (with all fresh lock files in it) when no lock file has been
#    added for keep_history days.
#  - The holder keeps its flock on the now unlinked inode. The next
#    do-approve/drc creates a NEW lock/<device> inode, gets the flock and
#    does NOT fail with "Approve in progress".
#
# Violation shown below: two `do-approve approve router` sessions are logged
# in to the (simulated) device at the same time and both write
# history/router interleaved (two START lines before the first END), while
# the property demands that the second run fails immediately with
# 'Approve in progress' and leaves device, status, history and logs untouched.
#
# Usage: defect_1.sh            (SRC=/tmp/wt/C12a by default; BIN=dir with
#                                prebuilt do-approve + get-netspoc-approve-conf,
#                                otherwise they are built from $SRC/go)
set -u
SRC=${SRC:-/tmp/wt/C12a}
T=$(mktemp -d /tmp/C12a-defect1.XXXXXX)
trap 'rm -rf $T' EXIT
if [ -z "${BIN:-}" ]; then
    BIN=$T/bin; mkdir -p $BIN
    export GOFLAGS=-mod=mod GOPROXY=off GOSUMDB=off GOTOOLCHAIN=local
    (cd $SRC/go && go build -o $BIN/do-approve ./cmd/do-approve &&
         go build -o $BIN/get-netspoc-approve-conf ./cmd/get-netspoc-approve-conf) || exit 2
fi
export PATH=$BIN:$PATH

setup() {
    W=$T/$1; mkdir -p $W/policies/p1/code $W/lock $W/status $W/history
    ln -s p1 $W/policies/current
    cat > $W/.netspoc-approve <<EOT
basedir = $W
checkbanner = NetSPoC
systemuser = admin
timeout = 20
login_timeout = 20
EOT
    echo "* admin secret" > $W/credentials
    echo '{"model":"IOS","name_list":["router"],"ip_list":["10.1.13.33"]}' \
         > $W/policies/p1/code/router.info
    : > $W/policies/p1/code/router
    cat > $W/scenario <<'EOT'
Enter Password:<!>
banner motd  managed by NetSPoC
router>
# sh ver
Cisco IOS Software, C2900 Software (C2900-UNIVERSALK9-M), Version 15.1(4)M4,
EOT
    # Simulated slow device; records begin/end of every login session.
    cat > $W/slowsim.sh <<EOT
#!/bin/bash
trap 'echo "\$(date +%T.%N) device session \$\$ END" >> $W/device.log' EXIT
trap 'exit 0' HUP TERM
echo "\$(date +%T.%N) device session \$\$ BEGIN" >> $W/device.log
sleep 3
$SRC/go/testdata/simulate-cisco.pl router $W/scenario
EOT
    chmod +x $W/slowsim.sh
    export HOME=$W SIMULATE_ROUTER=$W/slowsim.sh
    cd $W
}

report() {
    sleep 0.5
    echo "--- device.log"; cat device.log
    echo "--- history/router"; cat history/router
    n=$(grep -c START: history/router)
    if [ "$contender_rc" = 0 ] && [ "$n" = 2 ]; then
        echo "==> VIOLATION: contender was not rejected; two overlapping sessions"
    else
        echo "==> ok: contender rejected (rc=$contender_rc)"
    fi
    echo
}

echo "##### Variant A: lock file older than keep_history (first approve > 365 days ago)"
setup A
do-approve approve router >/dev/null 2>&1    # creates lock/router
sleep 0.5; rm -f device.log history/router
touch -d '400 days ago' lock/router          # mtime is never refreshed by SetLock, so this is what
                                             # the file looks like 400 days after the first approve
do-approve approve router &                  # holder
sleep 1
sh $SRC/bin/delete-old-policies              # daily cron job fires during the session
do-approve approve router                    # contender
contender_rc=$?
wait
report

echo "##### Variant B: fresh lock file, but no new device for > keep_history days => whole lock dir removed"
setup B
do-approve approve router &                  # holder (creates fresh lock/router)
sleep 1
touch -d '400 days ago' lock                 # directory mtime only changes when entries are added/removed
sh $SRC/bin/delete-old-policies 2>/dev/null  # daily cron job fires during the session
ls -d lock 2>&1
do-approve approve router                    # contender
contender_rc=$?
wait
report
