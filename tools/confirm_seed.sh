#!/bin/bash
# usage: confirm_seed.sh <worktree> <seed-id> <demo-file> <dest-dir-under-go> <test-regexp> <pkg>
# Confirms a seeded change: demo passes without patch; with patch: builds, suite unchanged, demo fails.
export GOFLAGS=-mod=mod GOPROXY=off GOSUMDB=off GOTOOLCHAIN=local
WT=$1; ID=$2; DEMO=$3; DEST=$4; RE=$5; PKG=$6
S=$WT/_seeded
cd $WT || exit 2
git checkout -q -- go 2>/dev/null
cp $S/$DEMO go/$DEST/$DEMO
R1=$(cd go && go test -vet=off -count=1 -run "$RE" $PKG 2>&1 | tail -1)
git apply $S/patch.diff || { echo "$ID: PATCH DOES NOT APPLY"; exit 1; }
B=$(cd go && go build ./... 2>&1 | head -3)
R2=$(cd go && go test -vet=off -count=1 -run "$RE" $PKG 2>&1 | tail -1)
rm go/$DEST/$DEMO
SU=$(/verif/tools/run_suite.py $WT | head -1)
git checkout -q -- go
echo "$ID: demo-without-patch=[$R1] build=[$B] demo-with-patch=[$R2] suite-with-patch=[$SU]"
