#!/bin/bash
# Defect 2 (property C04, result must equal target):
# genUniqRuleNames() / genUniqGroupNames() in go/pkg/nsx/diff.go rename a
# target object whose id is already used on the device to "<id>-<N>", but only
# check the new id against ids of the DEVICE, not against the other ids of the
# TARGET.  Raw files may legally use names like "deny" and "deny-1" or
# "Netspoc-web" and "Netspoc-web-1" (checkRaw only forbids r<NUM>.. and
# Netspoc-g<NUM>..).  Then two different target objects get the same id and
# the second PUT overwrites the first one.
#
# Case A (rules): device has raw rule "deny"; raw file changes "deny"
#   (logged:true) and adds "deny-1".  Output: two PUT .../rules/deny-1 ;
#   the changed rule "deny" (dst 10.1.2.9, logged) is lost on the device.
# Case B (groups): device has group Netspoc-web {10.1.1.1}; raw file extends
#   Netspoc-web to {10.1.1.1,10.1.1.2}, changes its rule, and adds group
#   Netspoc-web-1 {10.1.7.7} with rule b.  Output: two PUT .../groups/Netspoc-web-1;
#   rule a-1 ends up referencing a group containing 10.1.7.7 instead of
#   10.1.1.1,10.1.1.2.
# Both: policies on the manager differ from the target after all calls were
# executed; a second compare reports changes.
set -e
export GOFLAGS=-mod=mod GOPROXY=off GOSUMDB=off GOTOOLCHAIN=local
T=$(mktemp -d)
DRC=${DRC:-${BIN:-}}
if [ -z "$DRC" ]; then
  DRC=$T/drc; (cd /tmp/wt/C04b/go && go build -o $DRC ./cmd/drc)
fi
cd $T
g() { echo "{\"id\":\"$1\",\"expression\":[{\"id\":\"id\",\"resource_type\":\"IPAddressExpression\",\"ip_addresses\":[$2]}]}"; }
# r ID SEQ ACTION SRC DST EXTRA
r() { echo "{\"resource_type\":\"Rule\",\"id\":\"$1\",\"scope\":[\"/infra/tier-0s/v1\"],\"direction\":\"OUT\",\"ip_protocol\":\"IPV4\",\"sequence_number\":$2,\"action\":\"$3\",\"source_groups\":[\"$4\"],\"destination_groups\":[\"$5\"],\"services\":[\"ANY\"]$6}"; }
c() { echo "{\"groups\":[$1],\"services\":[],\"policies\":[{\"id\":\"Netspoc-v1\",\"rules\":[$2]}]}"; }
P=/infra/domains/default/groups
R1=$(r r1 20 ALLOW 10.1.1.10 10.1.2.1)
mkdir A B
echo '{"model":"NSX","name_list":["router"],"ip_list":["10.1.13.33"]}' | tee A/router.info > B/router.info
c "" "$R1" | tee A/router > B/router

c "" "$R1,$(r deny 15 DROP ANY 10.1.2.9)" > A/device
c "" "$(r deny 15 DROP ANY 10.1.2.9 ',"logged":true'),$(r deny-1 15 DROP ANY 10.1.2.8)" > A/router.raw
echo "=== case A: rules 'deny' (changed) and 'deny-1' (new) from raw"
$DRC -q A/device A/router

c "$(g Netspoc-web '"10.1.1.1"')" "$R1,$(r a 15 ALLOW $P/Netspoc-web 10.1.2.9)" > B/device
c "$(g Netspoc-web '"10.1.1.1","10.1.1.2"'),$(g Netspoc-web-1 '"10.1.7.7"')" \
  "$(r a 15 ALLOW $P/Netspoc-web 10.1.2.9 ',"logged":true'),$(r b 16 ALLOW $P/Netspoc-web-1 10.1.2.9)" > B/router.raw
echo "=== case B: groups 'Netspoc-web' (changed) and 'Netspoc-web-1' (new) from raw"
$DRC -q B/device B/router
echo "=== end (same URL is PUT twice with different content in both cases)"
rm -rf $T
