# tiny s-expression helpers for debugging dumped queries
def parse(s):
    s=s.strip(); pos=0
    def rd():
        nonlocal pos
        while s[pos].isspace(): pos+=1
        if s[pos]=='(':
            pos+=1; l=[]
            while True:
                while s[pos].isspace(): pos+=1
                if s[pos]==')': pos+=1; return l
                l.append(rd())
        else:
            st=pos
            if s[pos]=='"':
                pos+=1
                while s[pos]!='"': pos+=1
                pos+=1
            elif s[pos]=='|':
                pos+=1
                while s[pos]!='|': pos+=1
                pos+=1
            else:
                while not s[pos].isspace() and s[pos] not in '()': pos+=1
            return s[st:pos]
    return rd()
def show(x):
    return x if isinstance(x,str) else '('+' '.join(show(y) for y in x)+')'
def subst(x,a,b):
    if isinstance(x,str): return b if x==a else x
    return [subst(y,a,b) for y in x]
