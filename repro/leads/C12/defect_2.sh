#!/bin/bash
# Defect 2 (property C12, low severity / corner case): the lock is keyed on
# path.Base() of the argument (device.SetLock: lock/<path.Base(fname)>), not
# on the code file / device it denotes. A path to the device's code file via
# a symbolic link with a different last component (alias/fw1 ->
# policies/current/code/router, plus the matching .info link) therefore uses
# lock/fw1 instead of lock/router.
#
# Violation shown below: while `do-approve approve router` holds the device,
# `drc alias/fw1` is NOT rejected with 'Approve in progress'; it logs in to
# the same device (10.1.13.33 from router.info) concurrently, issues commands
# ("enable", "term len 0", "term width 512", "sh ver", empty command) and
# writes session logs. For IOS/ASA/Linux it aborts only afterwards at the
# host name check (expected name is again path.Base of the path); PAN-OS and
# NSX take the expected name from name_list in the .info file, so there the
# aliased run would go on to a full compare/approve.
#
# Usage: defect_2.sh   (SRC=/tmp/wt/C12a; BIN=dir with prebuilt drc, do-approve)
set -u
SRC=${SRC:-/tmp/wt/C12a}
T=$(mktemp -d /tmp/C12a-defect2.XXXXXX)
trap 'rm -rf $T' EXIT
if [ -z "${BIN:-}" ]; then
    BIN=$T/bin; mkdir -p $BIN
    export GOFLAGS=-mod=mod GOPROXY=off GOSUMDB=off GOTOOLCHAIN=local
    (cd $SRC/go && go build -o $BIN/do-approve ./cmd/do-approve &&
         go build -o $BIN/drc ./cmd/drc) || exit 2
fi
export PATH=$BIN:$PATH
W=$T/w; mkdir -p $W/policies/p1/code $W/lock $W/status $W/history $W/alias
ln -s p1 $W/policies/current
cat > $W/.netspoc-approve <<EOT
basedir = $W
checkbanner = NetSPoC
systemuser = admin
timeout = 20
login_timeout = 20
EOT
echo "* admin secret" > $W/credentials
echo '{"model":"IOS","name_list":["router"],"ip_list":["10.1.13.33"]}' \
     > $W/policies/p1/code/router.info
: > $W/policies/p1/code/router
ln -s ../policies/current/code/router      $W/alias/fw1
ln -s ../policies/current/code/router.info $W/alias/fw1.info
cat > $W/scenario <<'EOT'
Enter Password:<!>
banner motd  managed by NetSPoC
router>
# sh ver
Cisco IOS Software, C2900 Software (C2900-UNIVERSALK9-M), Version 15.1(4)M4,
EOT
cat > $W/slowsim.sh <<EOT
#!/bin/bash
trap 'echo "\$(date +%T.%N) device session \$\$ END" >> $W/device.log' EXIT
trap 'exit 0' HUP TERM
echo "\$(date +%T.%N) device session \$\$ BEGIN" >> $W/device.log
sleep 3
$SRC/go/testdata/simulate-cisco.pl router $W/scenario
EOT
chmod +x $W/slowsim.sh
export HOME=$W SIMULATE_ROUTER=$W/slowsim.sh
cd $W

do-approve approve router &              # holder
sleep 1
drc -q -L $W/logs alias/fw1              # contender: path (via symlink) to the same code file
rc=$?
wait; sleep 0.5
echo "contender rc=$rc"
echo "--- device.log";  cat device.log
echo "--- lock dir";    ls lock
echo "--- contender's session log (commands it sent to the device while the holder was logged in)"
cat logs/fw1.login 2>/dev/null
if [ "$(grep -c BEGIN device.log)" = 2 ]; then
    echo "==> VIOLATION: contender was not rejected with 'Approve in progress'; it talked to the device concurrently"
else
    echo "==> ok: contender rejected before talking to the device"
fi
