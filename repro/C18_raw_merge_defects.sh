#!/bin/bash
# C18 defects in the merge of raw files (all repaired by "fix:" commits recorded
# in known-findings.txt; found by an investigating sub-agent, each reproduced
# with the real drc on the unrepaired tree). The inputs and a description of
# what went wrong are in leads/C18_lead_{a,b,c,d,e}.sh. This script rebuilds
# drc from the tree and checks, per defect, that the repaired behaviour is
# shown. Exit 0 = all repaired, 1 = at least one defect present (named).
export GOFLAGS=-mod=mod GOPROXY=off GOSUMDB=off GOTOOLCHAIN=local
REPO=${GOVC_REPO:-/repo}
D=$(cd $(dirname $0) && pwd)
T=$(mktemp -d); trap 'rm -rf $T' EXIT
(cd $REPO/go && go build -o $T/drc ./cmd/drc) || exit 2
export DRC=$T/drc
bad=0
need() { # name text count file
  n=$(grep -c -- "$2" $4)
  if [ "$n" -lt "$3" ]; then echo "DEFECT PRESENT: $1 (expected '$2' x$3, found $n)"; bad=1; else echo "repaired: $1"; fi
}
sh $D/leads/C18_lead_a.sh > $T/a 2>&1
need "ASA raw ACL bound in and out, Netspoc binds one direction: merged twice (84e7e9a)" "Must reference 'access-list in_out' only once in raw" 3 $T/a
sh $D/leads/C18_lead_b.sh > $T/b 2>&1
if grep -q '^ip access-list extended Ethernet1_in$' $T/b; then echo "DEFECT PRESENT: IOS merged ACL changed under the wrong ACL name (1732570)"; bad=1; else echo "repaired: IOS merged ACL changed under the wrong ACL name (1732570)"; fi
need "IOS second occurrence of a raw ACL not normalised (2f1740c)" "^deny udp any host 224.0.1.1 eq 123" 1 $T/b
sh $D/leads/C18_lead_c.sh > $T/c 2>&1
need "PAN-OS duplicate vsys in raw collapses to the last one (14514dc)" "Duplicate vsys entry 'vsys1'" 2 $T/c
need "PAN-OS second <devices> entry in raw ignored (14514dc)" "Must not use multiple entries in <devices>" 1 $T/c
sh $D/leads/C18_lead_d.sh > $T/d 2>&1
need "Linux duplicate *table in raw replaces the first (ed56f05)" "Duplicate definition of table" 1 $T/d
need "Linux duplicate :CHAIN in raw drops collected rules (ed56f05)" "Duplicate definition of chain" 1 $T/d
sh $D/leads/C18_lead_e.sh > $T/e 2>&1
need "ASA raw sub-command added under the raw parent's name (86b6387)" "^group-policy VPN-group-DRC-0 attributes" 1 $T/e
need "IOS raw wildcard masks read as network masks (5cb41dd)" "host 10.0.1.11 eq 80" 1 $T/e
need "PAN-OS service groups of raw not merged (7cc0d53)" "service-group/entry\[@name='sg1'\]" 1 $T/e
# E2: the raw 'deny ip any6 any6' must stay in front of the Netspoc permit
if sed -n '/=== E2/,/=== E3/p' $T/e | awk '/deny ip any6 any6/{d=NR} /permit ip any6 host 1000::abcd:1:1/{p=NR} END{exit !(d>0 && p>0 && d<p)}'; then
  echo "repaired: ASA raw 'deny ip any6 any6' kept in front of the Netspoc lines (9a9ec0c)"
else echo "DEFECT PRESENT: ASA raw 'deny ip any6 any6' moved behind the Netspoc lines (9a9ec0c)"; bad=1; fi
exit $bad
