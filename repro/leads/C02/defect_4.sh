#!/bin/bash
# C02 defect 4: ICMP name 'reassembly-timeout' (IOS: type 11 code 1) is
# normalised to "11" (= time-exceeded, all codes) in cisco/parse.go
# icmpTypeCodes; every other name with a code carries its code ("ttl-exceeded"
# is "11 0").
# a) Device line 'permit icmp any host 10.1.1.1 reassembly-timeout' is taken as
#    equal to Netspoc 'permit icmp any host 10.1.1.1 11': drc reports
#    'device unchanged' although the device permits only code 1.
# b) Netspoc 'permit icmp ... 11 1' never converges: IOS shows the line as
#    'reassembly-timeout', which is read back as "11", so every compare emits
#    '... 11 1' again (a line IOS already has).
# Violates: "'device unchanged' only for an equivalent device" (a) and
# "a second compare reports no change" (b).
. "$(dirname "$0")/common.sh"
mk() { cat > "$1" <<END
ip access-list extended test
 permit icmp any host 10.1.1.1 $2
 deny ip any any

interface Ethernet1
 ip access-group test in
END
}
mk dev reassembly-timeout
mk spoc_a 11
mk spoc_b "11 1"
echo "$INFO" > spoc_a.info; echo "$INFO" > spoc_b.info
echo "--- a) device 'reassembly-timeout' (11/1) vs Netspoc '11'  (BUG if unchanged)"
"$DRC" dev spoc_a
echo "--- b) device 'reassembly-timeout' (11/1) vs Netspoc '11 1' (BUG if changed)"
"$DRC" dev spoc_b
