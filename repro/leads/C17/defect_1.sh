#!/bin/bash
# defect_1.sh -- Property C17: PAN-OS API key leaks through transport errors
#
# After login the PAN-OS driver puts the API key into the URL of every request
# (pkg/panos/device.go: s.urlPrefix = ".../api/?key=KEY&").  The *logged* URL
# is masked ("?key=xxx&"), but the error returned by http.Client.Get is a
# *url.Error whose text embeds the complete request URL, and
# httpPrefixGetLog / LoadDevice / ApplyCommands hand that error on unmasked.
# (getAPIKey does mask the password in the same kind of error, so the
# omission is specific to the API key.)
#
# Scenario: login (keygen) and HA check succeed, then the connection breaks
# while the configuration is fetched (same for any later request: set/edit,
# commit, job polling; same for timeouts, resets, TLS errors ...).
#
# VIOLATION: the API key obtained from the device appears in plain text
#   - on standard error of "drc"                          (run 1)
#   - in the run log policies/p1/log/router.compare,
#     on standard output of do-approve and
#     in the history file history/router                  (run 2)
# although C17 demands that it never appears there, "including transport
# errors whose messages embed the request URL".
#
# Uses $DRC / $DO_APPROVE if set, otherwise builds them from $SRC
# (default /tmp/wt/C17a/go).
set -u
export GOFLAGS=-mod=mod GOPROXY=off GOSUMDB=off GOTOOLCHAIN=local
SRC=${SRC:-/tmp/wt/C17a/go}
T=$(mktemp -d /tmp/C17a-d1.XXXXXX)
trap '[ -n "${PID:-}" ] && kill $PID 2>/dev/null; rm -rf "$T"' EXIT
if [ -z "${DRC:-}" ]; then
  DRC=$T/drc; (cd "$SRC" && go build -o "$DRC" ./cmd/drc) || exit 2
fi
if [ -z "${DO_APPROVE:-}" ]; then
  DO_APPROVE=$T/do-approve
  (cd "$SRC" && go build -o "$DO_APPROVE" ./cmd/do-approve) || exit 2
fi

# --- simulated PAN-OS device -------------------------------------------
mkdir "$T/sim"
cat > "$T/sim/main.go" <<'EOF_SIM'
// pansim: minimal stand-in for the XML API of a PAN-OS firewall (HTTPS,
// self signed certificate), only Go standard library.
//
//	pansim -urlfile F [-key KEY | -keyresp FILE] [-fail SUBSTR]
//
// Writes its base URL to F and serves until killed.
//
//	type=keygen                  -> answer with API key (KEY, XML escaped) or
//	                                with the raw contents of FILE
//	type=op ...high-availability -> HA not enabled
//	type=config&action=get       -> device "router" with one empty vsys1
//	anything else                -> <response status="success"/>
//
// Every request but keygen must carry the correct key=KEY, else status 403.
//
// If -fail SUBSTR is given, every request whose decoded query string contains
// SUBSTR gets no answer: the TCP connection is closed (transport error, as
// with a crashed management plane, a fail-over or a firewall in the path).
package main

import (
	"encoding/xml"
	"flag"
	"fmt"
	"net/http"
	"net/http/httptest"
	"net/url"
	"os"
	"strings"
)

const config = `<response status = 'success'>
 <result>
  <devices>
   <entry name="localhost.localdomain">
    <deviceconfig><system><hostname>router</hostname></system></deviceconfig>
    <vsys>
     <entry name="vsys1">
     <display-name>FW7-managed-by-Netspoc</display-name>
     </entry>
    </vsys>
   </entry>
  </devices>
 </result>
</response>
`

func main() {
	urlFile := flag.String("urlfile", "", "file to write base URL to")
	key := flag.String("key", "LUFRPT1tWFhUNWUk5N1Fjd3ZnMzh3MXlTOVJyb0kxSG5IWk5QTkdPNw==", "API key")
	keyResp := flag.String("keyresp", "", "file with raw keygen response")
	fail := flag.String("fail", "", "close connection if query contains this")
	flag.Parse()

	var esc strings.Builder
	xml.EscapeText(&esc, []byte(*key))
	keyBody := "<response status = 'success'><result><key>" + esc.String() +
		"</key></result></response>\n"
	if *keyResp != "" {
		b, err := os.ReadFile(*keyResp)
		if err != nil {
			panic(err)
		}
		keyBody = string(b)
	}

	var srv *httptest.Server
	srv = httptest.NewTLSServer(http.HandlerFunc(
		func(w http.ResponseWriter, r *http.Request) {
			raw, _ := url.QueryUnescape(r.URL.RawQuery)
			if *fail != "" && strings.Contains(raw, *fail) {
				if hj, ok := w.(http.Hijacker); ok {
					c, _, _ := hj.Hijack()
					c.Close()
					return
				}
			}
			if !strings.Contains(raw, "type=keygen") &&
				r.URL.Query().Get("key") != *key {
				w.WriteHeader(http.StatusForbidden)
				fmt.Fprint(w, "<response status = 'error' code = '403'>"+
					"<result><msg>Invalid Credential</msg></result></response>\n")
				return
			}
			switch {
			case strings.Contains(raw, "type=keygen"):
				fmt.Fprint(w, keyBody)
			case strings.Contains(raw, "high-availability"):
				fmt.Fprint(w, "<response status='success'><result>"+
					"<enabled>no</enabled></result></response>\n")
			case strings.Contains(raw, "action=get"):
				fmt.Fprint(w, config)
			case strings.Contains(raw, "type=commit"):
				fmt.Fprint(w, `<response status="success" code="19">`+
					"<msg>There are no changes to commit.</msg></response>\n")
			default:
				fmt.Fprint(w, `<response status="success" code="20"></response>`+"\n")
			}
		}))
	srv.Config.ErrorLog = nil
	if err := os.WriteFile(*urlFile+".tmp", []byte(srv.URL), 0644); err != nil {
		panic(err)
	}
	os.Rename(*urlFile+".tmp", *urlFile)
	select {}
}
EOF_SIM
(cd "$T/sim" && go mod init pansim >/dev/null 2>&1 && go build -o "$T/pansim" .) || exit 2

KEY='LUFRPT1tWFhUNWUk5N1Fjd3ZnMzh3MXlTOVJyb0kxSG5IWk5QTkdPNw=='
"$T/pansim" -urlfile "$T/url" -key "$KEY" -fail 'action=get' &
PID=$!
while [ ! -s "$T/url" ]; do sleep 0.1; done

# --- Netspoc-Approve environment ---------------------------------------
B=$T/base
mkdir -p "$B/policies/p1/code" "$B/lock" "$B/history" "$B/status"
ln -s p1 "$B/policies/current"
cat > "$B/policies/p1/code/router" <<'EOF'
<config><devices><entry name="localhost.localdomain"><vsys><entry name="vsys1">
</entry></vsys></entry></devices></config>
EOF
echo '{"model":"PAN-OS","name_list":["router"],"ip_list":["10.1.13.33"]}' \
  > "$B/policies/p1/code/router.info"
echo '* admin secret' > "$B/credentials"
printf 'basedir = %s\ntimeout = 2\n' "$B" > "$T/.netspoc-approve"
export HOME=$T SIMULATE_ROUTER=$(cat "$T/url")

echo "API key handed out by the device: $KEY"
echo
echo "=== run 1: drc -q -L log code/router  (stderr shown) ==="
"$DRC" -q -L "$T/log" "$B/policies/p1/code/router" 2> "$T/stderr1"
echo "exit status $?"
cat "$T/stderr1"
echo
echo "=== run 2: do-approve compare router ==="
(cd "$B" && "$DO_APPROVE" compare router > "$T/stdout2" 2> "$T/stderr2")
echo "exit status $?"
echo "--- stdout";  cat "$T/stdout2"
echo "--- stderr";  cat "$T/stderr2"
echo "--- run log policies/p1/log/router.compare"
cat "$B/policies/p1/log/router.compare"
echo "--- history/router"; cat "$B/history/router"
echo
rc=0
for f in "$T/stderr1" "$T/stdout2" "$B/policies/p1/log/router.compare" \
         "$B/history/router"; do
  if grep -qF -- "$KEY" "$f"; then
    echo "VIOLATION: API key found in $f"; rc=1
  fi
done
[ $rc = 0 ] && echo "no leak found"
exit $rc
