package main

import (
	"fmt"
	"go/token"
	"go/types"
	"strings"

	"golang.org/x/tools/go/ssa"
)

// Val is the symbolic value of an SSA value.
type Val struct {
	T     Term     // SMT term (when representable)
	LV    *LValue  // pointer known only as an lvalue
	Tuple []Val    // multi-value
	Clo   *Closure // known closure
	Alts  []CloAlt // function value merged from several known closures (condition = incoming edge)
	Bad   string   // non-empty: value not modelled (reason)
}

type CloAlt struct {
	Cond string
	Clo  *Closure
}

type Closure struct {
	Fn       *ssa.Function
	Bindings []Val
}

// LValue designates a memory location.
type LValue struct {
	Heap string   // heap name
	Keys []string // select keys: [ref] for fields/cells, [base, idx] for elements, [] for globals
	Path []pathEl // datatype accessor path inside the selected value
	Typ  types.Type
	Sort Sort
	// for pointers to struct objects: Ref term (Heap == "")
	Obj string
}

type pathEl struct {
	si  *structInfo
	idx int
}

type deferred struct {
	call *ssa.CallCommon
	args []Val
	fnv  Val
	pos  token.Pos
	cond string // reach condition under which the defer was registered
}

type State struct {
	heaps  map[string]string // heap -> current term
	defers []*deferred
}

func (s *State) clone() *State {
	n := &State{heaps: make(map[string]string, len(s.heaps)), defers: s.defers}
	for k, v := range s.heaps {
		n.heaps[k] = v
	}
	return n
}

type Obligation struct {
	Name    string
	Kind    string
	Props   []string
	Func    string
	Pos     string
	Text    string // human readable
	Goal    string // SMT: condition to prove (under Reach)
	Reach   string
	Prefix  int    // length of decl text valid at this point
	ft      *FT
	Cover   bool // satisfiability check (expect sat)
	Result  string // unsat/sat/unknown/timeout
	Solver  string
	Seconds float64
	Model   string
	SrcLine string
}

// FT is the translation of one function under verification (incl. inlined callees).
type FT struct {
	e       *Engine
	top     *ssa.Function
	decls   strings.Builder
	obls    []*Obligation
	n       int
	notes   []string // unsupported constructs etc.
	depth   int
	inlineStack []*ssa.Function
	occ     map[string]int
	assumed map[string]bool // contracts assumed (callees)
	inlined map[string]bool
	havocked map[string]bool // callee names handled by havoc
	inQuant  int
	devirt   map[string]types.Type // interface type string -> concrete type (specialised verification)
	variant  string
	staticLen map[string]int // slice term -> statically known length (varargs arrays)
	thunks   map[string]func() string
	forced   map[string]string
}

func (ft *FT) fresh(prefix string, s Sort) string {
	ft.n++
	name := fmt.Sprintf("%s!%d", sanitize(prefix), ft.n)
	fmt.Fprintf(&ft.decls, "(declare-const %s %s)\n", name, s)
	return name
}

func (ft *FT) define(prefix string, s Sort, body string) string {
	// keep atoms as they are
	if !strings.ContainsAny(body, "( ") || ft.inQuant > 0 {
		return body
	}
	ft.n++
	name := fmt.Sprintf("%s!%d", sanitize(prefix), ft.n)
	if s != SBool && strings.HasPrefix(body, "(ite ") {
		// a named constant instead of a macro: macros are expanded before
		// pattern matching and "ite" is not allowed inside quantifier patterns
		fmt.Fprintf(&ft.decls, "(declare-const %s %s)\n(assert (= %s %s))\n", name, s, name, body)
		return name
	}
	fmt.Fprintf(&ft.decls, "(define-fun %s () %s %s)\n", name, s, body)
	return name
}

func (ft *FT) assume(reach, fact string) {
	if fact == "true" {
		return
	}
	fmt.Fprintf(&ft.decls, "(assert %s)\n", implies(reach, fact))
}

func (ft *FT) note(format string, a ...any) {
	s := fmt.Sprintf(format, a...)
	for _, n := range ft.notes {
		if n == s {
			return
		}
	}
	ft.notes = append(ft.notes, s)
}

func sanitize(s string) string {
	var b strings.Builder
	for _, r := range s {
		if r >= 'a' && r <= 'z' || r >= 'A' && r <= 'Z' || r >= '0' && r <= '9' || r == '_' || r == '.' || r == '$' {
			b.WriteRune(r)
		} else {
			b.WriteRune('_')
		}
	}
	if b.Len() == 0 {
		return "v"
	}
	return b.String()
}

// heap access ---------------------------------------------------------------

// Heap values in a State are SMT terms or lazy tokens (prefix "\x00"): a lazy
// token stands for a value (fresh constant after a havoc, merge of branches)
// whose declaration is only emitted when somebody reads it.  This keeps the
// VCs small: most heaps havocked by a call are never read afterwards.
func (ft *FT) lazy(f func() string) string {
	ft.n++
	tok := fmt.Sprintf("\x00L%d", ft.n)
	if ft.thunks == nil {
		ft.thunks = map[string]func() string{}
		ft.forced = map[string]string{}
	}
	ft.thunks[tok] = f
	return tok
}

func (ft *FT) force(v string) string {
	if !strings.HasPrefix(v, "\x00") {
		return v
	}
	if t, ok := ft.forced[v]; ok {
		return t
	}
	// heap terms are closed: name them even when forced inside a quantifier body
	saved := ft.inQuant
	ft.inQuant = 0
	t := ft.thunks[v]()
	t = ft.force(t)
	ft.inQuant = saved
	ft.forced[v] = t
	return t
}

func (ft *FT) initialHeap(name string) string {
	s, ok := ft.e.u.heaps[name]
	if !ok {
		panic("unknown heap " + name)
	}
	init := sanitize(name) + "@0"
	key := "heapinit:" + name
	if !ft.assumed[key] {
		ft.assumed[key] = true
		fmt.Fprintf(&ft.decls, "(declare-const %s %s)\n", init, s)
	}
	return init
}

// rawHeap: the (possibly lazy) value of a heap in a state
func (ft *FT) rawHeap(st *State, name string) string {
	if t, ok := st.heaps[name]; ok {
		return t
	}
	return "\x00I" + name
}

func (ft *FT) heapTerm(st *State, name string) string {
	t, ok := st.heaps[name]
	if ok && !strings.HasPrefix(t, "\x00") {
		return t
	}
	var r string
	if !ok {
		r = ft.initialHeap(name)
	} else if strings.HasPrefix(t, "\x00I") {
		r = ft.initialHeap(t[2:])
	} else {
		r = ft.force(t)
	}
	st.heaps[name] = r
	return r
}

func (ft *FT) forceRaw(v string) string {
	if strings.HasPrefix(v, "\x00I") {
		return ft.initialHeap(v[2:])
	}
	return ft.force(v)
}

func (ft *FT) setHeap(st *State, name, term string) {
	s := ft.e.u.heaps[name]
	st.heaps[name] = ft.define(name, s, term)
}

func (ft *FT) havocHeap(st *State, name string) {
	s, ok := ft.e.u.heaps[name]
	if !ok {
		return
	}
	st.heaps[name] = ft.lazy(func() string { return ft.fresh(name, s) })
}

// load from an lvalue
func (ft *FT) load(st *State, lv *LValue) Term {
	u := ft.e.u
	if lv.Obj != "" {
		// whole struct object
		return ft.loadStruct(st, lv.Obj, lv.Typ)
	}
	t := ft.heapTerm(st, lv.Heap)
	for _, k := range lv.Keys {
		t = sel(t, k)
	}
	for _, p := range lv.Path {
		t = sx("f$"+p.si.name+"$"+p.si.fields[p.idx].name, t)
	}
	_ = u
	return Term{t, lv.Sort}
}

func (ft *FT) storeLV(st *State, lv *LValue, v Term) {
	switch v.Sort {
	case SRef:
		if v.S != "null" {
			ft.setHeap(st, escHeap, store(ft.heapTerm(st, escHeap), v.S, "true"))
		}
	case SSlice:
		if v.S != "nilslice" {
			ft.setHeap(st, escHeap, store(ft.heapTerm(st, escHeap), sx("sbase", v.S), "true"))
		}
	}
	if lv.Obj != "" {
		ft.storeStruct(st, lv.Obj, lv.Typ, v.S)
		return
	}
	h := ft.heapTerm(st, lv.Heap)
	// compute new inner value along path
	get := h
	var gets []string
	for _, k := range lv.Keys {
		gets = append(gets, get)
		get = sel(get, k)
	}
	// get is the selected root value; rebuild along datatype path
	newRoot := ft.updatePath(get, lv.Path, v.S)
	// store back through keys
	nv := newRoot
	for i := len(lv.Keys) - 1; i >= 0; i-- {
		nv = store(gets[i], lv.Keys[i], nv)
	}
	ft.setHeap(st, lv.Heap, nv)
}

func (ft *FT) updatePath(cur string, path []pathEl, v string) string {
	if len(path) == 0 {
		return v
	}
	p := path[0]
	parts := []string{"mk$" + p.si.name}
	for i, f := range p.si.fields {
		acc := sx("f$"+p.si.name+"$"+f.name, cur)
		if i == p.idx {
			parts = append(parts, ft.updatePath(acc, path[1:], v))
		} else {
			parts = append(parts, acc)
		}
	}
	return "(" + strings.Join(parts, " ") + ")"
}

// loadStruct builds the datatype value of the struct object at ref.
func (ft *FT) loadStruct(st *State, ref string, t types.Type) Term {
	u := ft.e.u
	si := u.structOf(t)
	if len(si.fields) == 0 {
		return Term{"mk$" + si.name, si.sort}
	}
	parts := []string{"mk$" + si.name}
	for i, f := range si.fields {
		if isStruct(f.typ) {
			sub := sx(u.subFun(t, i), ref)
			parts = append(parts, ft.loadStruct(st, sub, f.typ).S)
		} else {
			h, _ := u.fieldHeap(t, i)
			parts = append(parts, sel(ft.heapTerm(st, h), ref))
		}
	}
	return Term{"(" + strings.Join(parts, " ") + ")", si.sort}
}

func (ft *FT) storeStruct(st *State, ref string, t types.Type, v string) {
	u := ft.e.u
	si := u.structOf(t)
	if strings.ContainsAny(v, "( ") {
		v = ft.define("sv", si.sort, v)
	}
	for i, f := range si.fields {
		acc := sx("f$"+si.name+"$"+f.name, v)
		if isStruct(f.typ) {
			sub := sx(u.subFun(t, i), ref)
			ft.storeStruct(st, sub, f.typ, acc)
		} else {
			h, _ := u.fieldHeap(t, i)
			ft.setHeap(st, h, store(ft.heapTerm(st, h), ref, acc))
			switch f.sort {
			case SRef:
				ft.setHeap(st, escHeap, store(ft.heapTerm(st, escHeap), acc, "true"))
			case SSlice:
				ft.setHeap(st, escHeap, store(ft.heapTerm(st, escHeap), sx("sbase", acc), "true"))
			}
		}
	}
}

// all heaps that make up a struct object of type t (recursively)
func (u *Universe) structHeaps(t types.Type, out map[string]bool) {
	si := u.structOf(t)
	if si == nil {
		return
	}
	for i, f := range si.fields {
		if isStruct(f.typ) {
			u.subFun(t, i)
			u.structHeaps(f.typ, out)
		} else {
			h, _ := u.fieldHeap(t, i)
			out[h] = true
		}
	}
}

const allocHeap = "$alloc"
const panickingHeap = "$panicking"
const escHeap = "$esc"
const panicvalHeap = "$panicval"

func (ft *FT) newRef(st *State, prefix string, reach string) string {
	r := ft.fresh(prefix, SRef)
	a := ft.heapTerm(st, allocHeap)
	ft.assume("true", and(not(sel(a, r)), not(eq(r, "null")), eq(sx("refkind", r), "0")))
	ft.setHeap(st, allocHeap, store(a, r, "true"))
	ft.setHeap(st, escHeap, store(ft.heapTerm(st, escHeap), r, "false"))
	return r
}

func (ft *FT) assumeAllocated(st *State, reach string, t Term) {
	ft.assumeAllocatedIn(st, reach, t, "")
}

// assumeAllocatedIn: a reference read from heap `heap` is allocated. A value
// read from a heap that still is the entry heap of the function under
// verification was allocated when the function was entered (the entry state
// is well formed: it holds no dangling references); otherwise it is allocated
// now.
func (ft *FT) assumeAllocatedIn(st *State, reach string, t Term, heap string) {
	alloc := ""
	if heap != "" {
		if raw := ft.rawHeap(st, heap); strings.HasPrefix(raw, "\x00I") || raw == sanitize(heap)+"@0" {
			alloc = ft.initialHeap(allocHeap)
		}
	}
	if alloc == "" {
		alloc = ft.heapTerm(st, allocHeap)
	}
	switch t.Sort {
	case SRef:
		ft.assume(reach, or(eq(t.S, "null"), sel(alloc, t.S)))
	case SSlice:
		b := sx("sbase", t.S)
		ft.assume(reach, and(
			or(eq(b, "null"), sel(alloc, b)),
			sx("<=", "0", sx("soff", t.S)), sx("<=", "0", sx("slen", t.S)), sx("<=", sx("slen", t.S), sx("scap", t.S)),
			implies(eq(b, "null"), eq(t.S, "nilslice"))))
	}
}

// assumeAllocatedAtEntry: t was read from an entry heap, so it was allocated
// when the function under verification was entered.
func (ft *FT) assumeAllocatedAtEntry(reach string, t Term) {
	alloc := ft.initialHeap(allocHeap)
	switch t.Sort {
	case SRef:
		ft.assume(reach, or(eq(t.S, "null"), sel(alloc, t.S)))
	case SSlice:
		b := sx("sbase", t.S)
		ft.assume(reach, or(eq(b, "null"), sel(alloc, b)))
	}
}
