#!/bin/bash
# Defect 2 (C20): NSX. A rule of the Netspoc file references
# /infra/domains/default/groups/Netspoc-g0, but no group with that id is defined in the
# Netspoc file (here: the line '"id": "Netspoc-g0",' was deleted - a single line/token
# deletion of testdata/nsx.t "No differences with groups"; equally a raw file that references
# a Netspoc-* group existing on the device).  The device defines group Netspoc-g0.
# rulesPair.Equal/groupEq regards the rules as equal (same path string), then
# equalizeGroups dereferences gb == nil (pkg/nsx/diff.go:319 "gb.nameOnDevice"):
# "invalid memory address or nil pointer dereference", exit status 2, no diagnostic.
. "$(dirname "$0")/common.inc"
cd "$T"
mk() { cat > $1 <<END
{
 "groups": [ { $2
   "expression": [ { "id": "id", "resource_type": "IPAddressExpression",
                     "ip_addresses": [ "10.1.1.10", "10.1.1.20" ] } ] } ],
 "policies": [
  { "id": "Netspoc-v1", "resource_type": "GatewayPolicy",
    "rules": [
     { "resource_type": "Rule", "id": "r1", "scope": [ "/infra/tier-0s/v1" ],
       "direction": "OUT", "ip_protocol": "IPV4", "sequence_number": 20, "action": "ALLOW",
       "source_groups": [ "/infra/domains/default/groups/Netspoc-g0" ],
       "destination_groups": [ "10.1.2.30" ],
       "services": [ "ANY" ] } ] } ],
 "services": []
}
END
}
mk dev '"id": "Netspoc-g0",'
mk spoc ''
echo '{"model":"NSX","name_list":["router"],"ip_list":["10.1.13.33"]}' > spoc.info
run -q dev spoc
