#!/bin/sh
# Lead (a), ASA: raw ACL bound by access-group in BOTH directions of an
# interface, while Netspoc binds only ONE direction.
#
# VERDICT: CONFIRMED DEFECT (unchanged code), result depends on the order
# of the two access-group lines in the raw file.
#
# Cause: go/pkg/cisco/config.go mergeRefs().  When the raw access-group
# matches a Netspoc access-group (a != nil) the raw ACL is merged into the
# Netspoc ACL, all raw lines are RENAMED to the Netspoc ACL name and
# isReferenced[rawACL] is set.  When the raw access-group matches nothing
# in Netspoc (a == nil) only the "Name clash" test is done, isReferenced is
# NOT consulted.  So
#   order "in, out" (matching one first): second reference re-registers the
#       already renamed raw lines under lookup["access-list"]["in_out"]
#       -> two ACLs share the same *cmd objects / the same name -> garbage.
#   order "out, in" (non matching one first): second reference has a != nil
#       and aborts with "Must reference ... only once in raw".
#
# Case 1 output (no error, no warning, rc=0):
#   access-list inside_in-DRC-0-DRC-0 extended permit ip any4 host 10.0.6.1
#   access-list inside_in-DRC-0 extended permit ip 10.0.6.0 ... host 10.0.1.11
#   access-list inside_in-DRC-0 extended deny ip any4 any4
#   access-group inside_in-DRC-0-DRC-0 in interface inside
#   access-group inside_in-DRC-0-DRC-0 out interface inside
# i.e. the interface gets (in both directions) an ACL that holds ONLY the raw
# line; the two Netspoc lines of inside_in are written to an ACL
# "inside_in-DRC-0" that is bound nowhere.  Both Netspoc lines are thus lost
# from the effective inbound ACL and nothing is reported.
# Case 2 (same raw file, the two access-group lines swapped) is rejected:
#   ERROR>>> Must reference 'access-list in_out' only once in raw
# The test suite (asa_raw.t "Must not bind same ACL multiple times (1)/(2)")
# shows that rejecting is the intended behaviour; only the mixed case slips.
#
# Proposed fix: /tmp/inv1-scratch/lead_a.diff (4 lines, also checks
# isReferenced in the a == nil branch).  With it case 1 and case 3 print
# "ERROR>>> Must reference 'access-list in_out' only once in raw";
# test suite unchanged (same 9 root/permission failures as without patch).

DRC=${DRC:-/tmp/inv1-scratch/drc}
T=$(mktemp -d); cd "$T" || exit 1
cat > dev <<'EOF'
interface Ethernet0/1
 nameif inside
EOF
echo '{"model":"ASA","name_list":["router"],"ip_list":["10.1.13.33"]}' > router.info
cat > router <<'EOF'
access-list inside_in extended permit ip 10.0.6.0 255.255.255.0 host 10.0.1.11
access-list inside_in extended deny ip any4 any4
access-group inside_in in interface inside
EOF

echo "=== case 1: Netspoc binds 'in'; raw binds in_out 'in' then 'out'  (GARBAGE, no message)"
cat > router.raw <<'EOF'
access-list in_out extended permit ip any4 host 10.0.6.1
access-group in_out in interface inside
access-group in_out out interface inside
EOF
$DRC -q dev router; echo "rc=$?"

echo "=== case 2: same, raw lines swapped: 'out' then 'in'  (rejected, as intended)"
cat > router.raw <<'EOF'
access-list in_out extended permit ip any4 host 10.0.6.1
access-group in_out out interface inside
access-group in_out in interface inside
EOF
$DRC -q dev router; echo "rc=$?"

echo "=== case 3: Netspoc binds 'out' only; raw binds 'out' then 'in'  (GARBAGE, no message)"
cat > router <<'EOF'
access-list inside_out extended permit ip host 10.0.1.11 10.0.6.0 255.255.255.0
access-list inside_out extended deny ip any4 any4
access-group inside_out out interface inside
EOF
$DRC -q dev router; echo "rc=$?"
rm -rf "$T"
