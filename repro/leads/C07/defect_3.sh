#!/bin/bash
# C07 defect 3 (ASA): a local (admin) user of the device that has a
# "username X attributes" block is wiped with "clear configure username X",
# although Netspoc's configuration contains no user at all.
#
# "username $NAME attributes" is parsed as anchor; every device anchor missing
# in Netspoc is marked for deletion and, because the type is CLEAR_CONF,
# removed with "clear configure username admin". That command also removes
# "username admin password ... privilege 15", a line the tool does not model
# (only "username $NAME nopassword" is known), i.e. the complete local admin
# account, including ssh public key. Netspoc itself only ever generates
# "username X nopassword" users for VPN.
# Property violated: lines the tool does not model / objects outside
# Netspoc's scope are never deleted.
set -e
export GOFLAGS=-mod=mod GOPROXY=off GOSUMDB=off GOTOOLCHAIN=local
DRC=${DRC:-${BIN:-}}
D=$(mktemp -d)
if [ -z "$DRC" ]; then
  DRC=$D/drc; (cd /tmp/wt/C07b/go && go build -o $DRC ./cmd/drc)
fi
cd $D
cat > dev <<'END'
interface Ethernet0/0
 nameif inside
 ip address 10.1.1.1 255.255.255.0
username admin password $sha512$5000$abcdef pbkdf2 privilege 15
username admin attributes
 service-type admin
 ssh authentication publickey aa:bb:cc hashed
username netspoc password $sha512$5000$123456 pbkdf2 privilege 15
access-list inside_in-DRC-0 extended deny ip any4 any4
access-group inside_in-DRC-0 in interface inside
END
cat > spoc <<'END'
access-list inside_in extended deny ip any4 any4
access-group inside_in in interface inside
END
echo '{"model":"ASA","name_list":["router"],"ip_list":["10.1.13.33"]}' > spoc.info
$DRC -q dev spoc
# Observed (unchanged code):  clear configure username admin
# Expected: no output.
