#!/bin/bash
# Defect 4 (property C04, "A second compare reports no change"; quantifier
# "groups ... duplicated"): the target defines two groups with identical
# address lists (Netspoc-g0 and Netspoc-g1, both {10.1.1.4}).
# Rules r2 (g1 -> g0) and r1 (g0 -> g0) are equal in all attributes and their
# groups have equal content, so sortRules() leaves them in input order and the
# device rules are paired crosswise with the target rules.  equalizeGroups()
# binds a device group to exactly one target group (nameOnDevice/needed), so
# the crosswise pairing finds device group g0 "already used" and creates a new
# group Netspoc-g0-1, patches both rules and deletes Netspoc-g1.
#
# Stage 1: empty policy -> target.
# Stage 2: manager holds exactly the target (state after stage 1, rules listed
#          by id). Expected: no output. Observed: PUT group Netspoc-g0-1,
#          2 x PATCH rule, DELETE group Netspoc-g1.
# (A third compare is quiet. No small fix known; low practical relevance
#  if Netspoc never emits two groups with identical content.)
set -e
export GOFLAGS=-mod=mod GOPROXY=off GOSUMDB=off GOTOOLCHAIN=local
T=$(mktemp -d)
DRC=${DRC:-${BIN:-}}
if [ -z "$DRC" ]; then
  DRC=$T/drc; (cd /tmp/wt/C04b/go && go build -o $DRC ./cmd/drc)
fi
cd $T
g() { echo "{\"id\":\"$1\",\"expression\":[{\"id\":\"id\",\"resource_type\":\"IPAddressExpression\",\"ip_addresses\":[$2]}]}"; }
P=/infra/domains/default/groups
r() { echo "{\"resource_type\":\"Rule\",\"id\":\"$1\",\"scope\":[\"/infra/tier-0s/v1\"],\"direction\":\"OUT\",\"ip_protocol\":\"IPV4\",\"sequence_number\":20,\"action\":\"ALLOW\",\"source_groups\":[\"$P/$2\"],\"destination_groups\":[\"$P/$3\"],\"services\":[\"ANY\"]}"; }
G0=$(g Netspoc-g0 '"10.1.1.4"')
G1=$(g Netspoc-g1 '"10.1.1.4"')
R2=$(r r2 Netspoc-g1 Netspoc-g0)
R1=$(r r1 Netspoc-g0 Netspoc-g0)
echo '{"model":"NSX","name_list":["router"],"ip_list":["10.1.13.33"]}' > router.info
echo "{\"groups\":[$G0,$G1],\"services\":[],\"policies\":[{\"id\":\"Netspoc-v1\",\"rules\":[$R2,$R1]}]}" > router
echo '{"groups":[],"services":[],"policies":[{"id":"Netspoc-v1","rules":[]}]}' > device1
echo "{\"groups\":[$G0,$G1],\"services\":[],\"policies\":[{\"id\":\"Netspoc-v1\",\"rules\":[$R1,$R2]}]}" > device2
echo "=== stage 1: first compare (empty policy -> target)"
$DRC -q device1 router
echo "=== stage 2: second compare (manager holds target; expected: no output)"
$DRC -q device2 router
echo "=== end (any output in stage 2 violates C04)"
rm -rf $T
