#!/bin/bash
# defect_4.sh -- Property C17 (borderline): the login/enable password reaches
# the .config session log when the device stores it in clear text
#
# pkg/ios/device.go LoadDevice(): the complete answer to "sh run" is written
# verbatim to LOGDIR/<device>.config (console.Conn.expectLog -> logString).
# Nothing is filtered.  On an IOS device without "service
# password-encryption" (or with type 0 secrets) the running config holds
#     enable password <PLAIN>
#     username <user> password 0 <PLAIN>
#     line vty ... / password <PLAIN>
# and Netspoc-Approve uses exactly these credentials (login password is also
# tried as enable password).  So after a completely SUCCESSFUL compare run the
# login password stands in plain text in router.config.
#
# VIOLATION (by the letter of C17: "never appear, plain ..., in the session
# logs (.login, .config, ...)"; "this holds for successful runs").
# Borderline because the secret comes back from the device as configuration
# data and logging the raw configuration is the purpose of the .config file;
# there is no masking mechanism for it at all and no small fix a maintainer
# would take (one would have to rewrite password lines before logging).
# With type 5/8/9 hashes or TACACS users nothing leaks.
#
# Uses $DRC if set, otherwise builds drc from $SRC (default /tmp/wt/C17a/go).
set -u
export GOFLAGS=-mod=mod GOPROXY=off GOSUMDB=off GOTOOLCHAIN=local
SRC=${SRC:-/tmp/wt/C17a/go}
T=$(mktemp -d /tmp/C17a-d4.XXXXXX)
trap 'rm -rf "$T"' EXIT
if [ -z "${DRC:-}" ]; then
  DRC=$T/drc; (cd "$SRC" && go build -o "$DRC" ./cmd/drc) || exit 2
fi
PASS='S3cr3t-Pa55'

cat > "$T/ios-sim.py" <<EOF
#!/usr/bin/env python3
# Minimal IOS simulation; passwords typed at "Password:" are not echoed.
import sys
PASS = "$PASS"
def out(s):
    sys.stdout.write(s.replace("\n", "\r\n")); sys.stdout.flush()
out("Password: ")
sys.stdin.readline()
out("\nbanner motd managed by NetSPoC\n\nrouter>")
prompt = "router>"
while True:
    line = sys.stdin.readline()
    if not line:
        break
    cmd = line.rstrip("\r\n")
    out(cmd + "\n")
    if cmd == "exit":
        break
    if cmd == "enable":
        out("Password: ")
        ok = sys.stdin.readline().rstrip("\r\n") == PASS
        out("\n")
        if ok:
            prompt = "router#"
        else:
            out("% Access denied\n\n")
    elif cmd == "sh ver":
        out("Cisco IOS Software, C2900 Software, Version 15.1(4)M4\n")
    elif cmd == "sh run":
        out("Building configuration...\n\n"
            "version 15.1\n"
            "no service password-encryption\n"
            "hostname router\n"
            "enable password %s\n"
            "username admin privilege 1 password 0 %s\n"
            "banner motd ^C managed by NetSPoC ^C\n"
            "end\n" % (PASS, PASS))
    out(prompt)
EOF
chmod +x "$T/ios-sim.py"

mkdir -p "$T/code" "$T/lock"
: > "$T/code/router"
echo '{"model":"IOS","name_list":["router"],"ip_list":["10.1.13.33"]}' \
  > "$T/code/router.info"
echo "* admin $PASS" > "$T/credentials"
printf 'basedir = %s\ntimeout = 2\n' "$T" > "$T/.netspoc-approve"
export HOME=$T SIMULATE_ROUTER="$T/ios-sim.py"

echo "login password in credentials file: $PASS"
echo "=== drc -C -L log code/router ==="
"$DRC" -C -L "$T/log" "$T/code/router" > "$T/stdout" 2> "$T/stderr"
echo "exit status $?"
echo "--- stdout"; cat "$T/stdout"
echo "--- stderr"; cat "$T/stderr"
for f in "$T"/log/*; do echo "--- log/$(basename "$f")"; cat "$f"; echo; done
echo
rc=0
for f in "$T/stdout" "$T/stderr" "$T"/log/*; do
  if grep -qF -- "$PASS" "$f"; then
    echo "VIOLATION: login password found in $f"; rc=1
  fi
done
[ $rc = 0 ] && echo "no leak found"
exit $rc
