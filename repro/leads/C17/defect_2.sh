#!/bin/bash
# defect_2.sh -- Property C17: login password is typed as a *command* at the
# IOS/ASA exec prompt and ends up in the .login session log
#
# pkg/cisco/device.go, LoginEnable():
#
#     if waitPrompt(pass, ">") {
#         if !waitPrompt("enable", "#") {
#             // Enable password required.
#             // Use login password as enable password.
#             if !waitPrompt(pass, "#") {          <-- sent unconditionally
#
# waitPrompt() waits for `(?i)password:|<prompt>`.  If "enable" is answered
# not with a "Password:" prompt but with an error and the user-mode prompt
# again, e.g. on IOS
#        router>enable
#        % Error in authentication.      (AAA enable authentication fails /
#                                         TACACS not reachable, no fallback)
#   or   % No password set               (no enable secret, vty session)
#        router>
# then the output ends in ">" (not "#"), and the code concludes "enable
# password required" and sends the login password.  The device is NOT at a
# password prompt, so it treats the password as a command line and echoes it
# like every command; everything received is written to the session log.
#
# VIOLATION: the login password appears in plain text in LOGDIR/router.login
# (login failure position: enable step).  The run itself ends with
# "ERROR>>> Authentication for enable mode failed".
#
# The device simulator below differs from go/testdata/simulate-cisco.pl in
# one respect that matters here: like a real device it does NOT echo what is
# typed at a "Password:" prompt (simulate-cisco.pl echoes passwords too, so
# with it the password is in every .login file and nothing can be concluded).
#
# Uses $DRC if set, otherwise builds drc from $SRC (default /tmp/wt/C17a/go).
set -u
export GOFLAGS=-mod=mod GOPROXY=off GOSUMDB=off GOTOOLCHAIN=local
SRC=${SRC:-/tmp/wt/C17a/go}
T=$(mktemp -d /tmp/C17a-d2.XXXXXX)
trap 'rm -rf "$T"' EXIT
if [ -z "${DRC:-}" ]; then
  DRC=$T/drc; (cd "$SRC" && go build -o "$DRC" ./cmd/drc) || exit 2
fi
PASS='S3cr3t-Pa55'

cat > "$T/ios-sim.py" <<'EOF'
#!/usr/bin/env python3
# Minimal IOS exec simulation: password prompt without echo, user mode
# prompt, "enable" fails without asking for a password.
import sys
def out(s):
    sys.stdout.write(s.replace("\n", "\r\n")); sys.stdout.flush()
out("Password: ")
sys.stdin.readline()                 # login password, not echoed
out("\nbanner motd managed by NetSPoC\n\nrouter>")
while True:
    line = sys.stdin.readline()
    if not line:
        break
    cmd = line.rstrip("\r\n")
    out(cmd + "\n")                  # device echoes the command line
    if cmd == "exit":
        break
    if cmd == "enable":
        out("% Error in authentication.\n\n")
    elif cmd != "":
        out('Translating "%s"...domain server (255.255.255.255)\n' % cmd +
            "% Unknown command or computer name, "
            "or unable to find computer address\n")
    out("router>")
EOF
chmod +x "$T/ios-sim.py"

mkdir -p "$T/code" "$T/lock"
: > "$T/code/router"
echo '{"model":"IOS","name_list":["router"],"ip_list":["10.1.13.33"]}' \
  > "$T/code/router.info"
echo "* admin $PASS" > "$T/credentials"
printf 'basedir = %s\ntimeout = 2\n' "$T" > "$T/.netspoc-approve"
export HOME=$T SIMULATE_ROUTER="$T/ios-sim.py"

echo "login password in credentials file: $PASS"
echo "=== drc -q -L log code/router ==="
"$DRC" -q -L "$T/log" "$T/code/router" > "$T/stdout" 2> "$T/stderr"
echo "exit status $?"
echo "--- stdout"; cat "$T/stdout"
echo "--- stderr"; cat "$T/stderr"
echo "--- log/router.login"; cat "$T/log/router.login"; echo
echo
rc=0
for f in "$T/stdout" "$T/stderr" "$T"/log/*; do
  if grep -qF -- "$PASS" "$f"; then
    echo "VIOLATION: login password found in $f"; rc=1
  fi
done
[ $rc = 0 ] && echo "no leak found"
exit $rc
